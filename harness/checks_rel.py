"""Relational checks C09 (label values/order/dtype), C10 (padding/translation/flips/permutation/layout),
C11 (exchange of prediction and reference), C12 (class groups).

Every record holds run A (validated end to end against the specification like any C01 trace) and
the reported result of a related run B; TLC checks the relation between the two reports
(T_Rel* clauses of Trace_Eval.tla) whenever the matching is uniquely determined, and the
specification itself is invariant under the relation (it never looks at label magnitudes, dtypes,
layouts, and is stated on voxel sets)."""
from __future__ import annotations

import itertools
import random

import numpy as np

from . import drive, gen
from .common import Verdict, seed
from .engine import run_models, validate_traces
from .checks_pipeline import (DISTINCT_H, MODELS_QUICK, MODELS_THOROUGH, _count_cov, _eval_key, _sample, rand_cfg,
                              rand_handler, site_eval, what_eval)
from .rec_pipeline import DEFAULT_H, attach_b, default_cfg, make_evaluator, rec_evaluate, run_evaluate

REL = ["T_RelCompletes", "T_RelCounts", "T_RelLists", "T_RelSq", "T_RelGlobal"]
BASE = ["T_Completes", "T_Counts", "T_Tp", "T_FpFn", "T_Lists", "T_Rq", "T_Sq", "T_Std", "T_ZeroTpSq", "T_ZeroTpStd",
        "T_Ambiguous", "T_Global"]


def site_rel(rec, clause):
    s = site_eval(rec, clause)
    eb = rec["meta"].get("exception_b") or ""
    top = False
    if rec["meta"].get("raw_ref_b"):
        npred = len({x for x in rec["meta"].get("raw_pred_b", []) if x})
        top = max(rec["meta"]["raw_ref_b"]) + npred >= 2**64
    s.update({"rel": rec["rel"], "transform": rec["meta"].get("transform", ""), "dtype_b": rec["meta"].get("dtype_b", ""),
              "gkind": rec.get("gkind", ""), "outb": rec.get("outb", ""),
              "exc_b": eb.split(":")[0] + (":not-unsigned-dtype" if "are not dtype" in eb else ""),
              "ref_label_plus_npred_reaches_2^64": top,
              "label_ge_2^63": bool(rec["meta"].get("raw_ref_b")) and max(rec["meta"]["raw_ref_b"] + rec["meta"].get("raw_pred_b", [0])) >= 2**63})
    return s


def what_rel(rec, clause):
    return what_eval(rec, clause) + f" rel={rec['rel']} transform={rec['meta'].get('transform')} {rec['meta'].get('exception_b') or ''}"[:160]


# --------------------------------------------------------------------------------------
# C09: renaming labels, dtype
# --------------------------------------------------------------------------------------
UINTS = [np.uint8, np.uint16, np.uint32, np.uint64]
SINTS = [np.int8, np.int16, np.int32, np.int64]


def _injective_labels(rng, labs, dtype, style):
    mx = int(np.iinfo(dtype).max)
    n = len(labs)
    if style == "small" or mx < 300:
        pool = rng.sample(range(1, min(mx, 255) + 1), n)
    elif style == "top":                      # values at and just below max(dtype)
        pool = [mx - i for i in rng.sample(range(0, n + 3), n)]
    elif style == "wide":                     # anywhere in [1, 2^24), products beyond 2^32
        hi = min(mx, 2**24 - 1)
        pool = rng.sample(range(max(1, hi // 2), hi + 1), n) if rng.random() < 0.5 else rng.sample(range(1, hi + 1), n)
    elif style == "multiples":               # small labels together with multiples of 2^8 / 2^16 (+ a small label)
        base = rng.sample(range(1, 200), n)
        pool = []
        for i, b in enumerate(base):
            k = rng.choice([0, 0, 256, 512, 65536, 2**24 - 256]) if mx > 70000 else rng.choice([0, 0, 256, 512, 1024])
            pool.append(k + (b if rng.random() < 0.5 or k == 0 else 0))
        pool = list(dict.fromkeys([x for x in pool if 0 < x <= mx]))
        while len(pool) < n:
            pool.append(rng.randint(300, min(mx, 2**24 - 1)))
            pool = list(dict.fromkeys(pool))
    else:                                     # "mixed": small and huge together
        hi = min(mx, 2**24 - 1)
        pool = [rng.randint(1, 9) * 7 + i for i in range(n // 2)] + [hi - i for i in range(n - n // 2)]
        pool = list(dict.fromkeys(pool))
        while len(pool) < n:
            pool.append(rng.randint(10, hi))
            pool = list(dict.fromkeys(pool))
        rng.shuffle(pool)
    return dict(zip(labs, pool[:n]))


def _apply(mapping, a, dtype):
    out = np.zeros(a.shape, dtype=dtype)
    for k, val in mapping.items():
        out[a == k] = val
    return out


def check_C09(tier: str, v: Verdict):
    drive.use_serial_pool()
    rng = random.Random(seed() * 7919 + 9)
    run_models(v, [("MC_Rel", "MC_Rel_rename.cfg" if tier == "quick" else "MC_Rel_rename_t.cfg")] + MODELS_QUICK)
    recs = []
    n = 1500 if tier == "quick" else 20000
    for _ in range(n):
        cfg = rand_cfg(rng, inputs=("UNM", "UNM", "SEM", "MAT"), matchers=("naive", "naive", "merge", "m2o"))
        sem = cfg["input"] == "SEM"
        wrap = None
        if rng.random() < 0.15:
            # an isolated overlapping pair whose two label values add up to exactly 2^bits of the
            # target dtype (label arithmetic anywhere in the pipeline would wrap to background)
            pred, ref, p_new, r_new = gen.far_block_pair(rng, joint=cfg["input"] != "UNM")
            dt = rng.choice([np.uint8, np.uint16, np.uint32])
            bits = np.iinfo(dt).bits
            if cfg["input"] != "UNM":
                wrap = (p_new, 2 ** (bits - 1), r_new, 2 ** (bits - 1))
            else:
                big = 2 ** bits - rng.randint(1, 60)
                wrap = (p_new, big, r_new, 2 ** bits - big) if rng.random() < 0.5 else (p_new, 2 ** bits - big, r_new, big)
            style = "small"
        else:
            pred, ref = gen.rand_unmatched_pair(rng, max_vox=48)
            dt = rng.choice(UINTS + (SINTS if sem else []))
            style = rng.choice(["small", "top", "wide", "mixed", "multiples", "multiples"])
        missed = None
        if wrap is None and not sem and cfg["input"] == "UNM" and rng.random() < 0.1:
            # every prediction is an exact copy of a reference instance (all matched, no fresh label) and
            # the references without a partner carry labels that only differ from small ones by a
            # multiple of 2^8 / 2^16: a result dtype chosen from the matched labels alone cannot hold them
            ref = gen.rand_instances(rng, gen.pick_shape(rng, 40), rng.randint(2, 4))
            labs = [int(x) for x in np.unique(ref) if x]
            if len(labs) >= 2:
                missed = rng.sample(labs, rng.randint(1, len(labs) - 1))
                pred = np.where(np.isin(ref, missed), 0, ref)
            else:
                pred = ref.copy()
            dt = rng.choice([np.uint16, np.uint32, np.uint64])
            style = "small"
        if dt in (np.int8,):
            style = "small"
        pl = [int(x) for x in np.unique(pred) if x]
        rl = [int(x) for x in np.unique(ref) if x]
        if cfg["input"] == "MAT" or (sem and cfg["backend"] != "scipy" and rng.random() < 0.0):
            joint = _injective_labels(rng, sorted(set(pl) | set(rl)), dt, style)
            fp, fr = joint, joint
        elif sem:
            # semantic labels: pred and ref share the label space (a class), rename jointly
            joint = _injective_labels(rng, sorted(set(pl) | set(rl)), dt, style)
            fp, fr = joint, joint
        else:
            fp = _injective_labels(rng, pl, dt, style)
            fr = _injective_labels(rng, rl, dt, rng.choice(["small", "top", "wide", "mixed", "multiples", "multiples"]) if dt != np.int8 else "small")
        if missed is not None:
            step = 256 if dt == np.uint16 or rng.random() < 0.5 else 65536
            fr = _injective_labels(rng, rl, dt, "small")
            kept = [x for k2, x in fr.items() if k2 not in missed]
            for j, k2 in enumerate(missed):
                fr[k2] = step * (j + 1) + (rng.choice(kept) if kept and rng.random() < 0.5 else 0)
            style = "missed-multiples"
        if wrap is not None:
            # swap the wrapping values in (keeping the renaming injective)
            for f, (old, val) in ((fp, wrap[:2]), (fr, wrap[2:])):
                for k2 in [k2 for k2, x in f.items() if x == val and k2 != old]:
                    f[k2] = f[old]
                f[old] = val
            style = "wrapsum"
        rec = rec_evaluate(pred, ref, cfg, meta={"gen": "random", "transform": f"rename-{style}", "dtype_b": str(np.dtype(dt))})
        pb, rb = _apply(fp, pred, dt), _apply(fr, ref, dt)
        outb, resb, exc = run_evaluate(pb, rb, cfg)
        attach_b(rec, "same", outb, resb, exc, {"raw_pred_b": [int(x) for x in pb.ravel()], "raw_ref_b": [int(x) for x in rb.ravel()]})
        recs.append(rec)
    _count_cov(v, recs, lambda r: _eval_key(r) + (r["meta"]["transform"], r["meta"]["dtype_b"], tuple(r["meta"]["raw_pred_b"]), tuple(r["meta"]["raw_ref_b"])),
               lambda r: any(r["pred"]) and any(r["ref"]))
    v.cov["rule"] = ("pairs (A: small labels in uint8, B: the same pair after an injective relabelling into the target dtype's range - "
                     "small / at max(dtype) / up to 2^24 / mixed - in uint8/16/32/64, signed for semantic input); joint renaming for "
                     "matched and semantic input; distinct by (arrays, config, renaming); non-trivial = both sides non-empty")
    _sample(v, recs)
    validate_traces(v, "Trace_Eval", BASE + REL, recs, site_rel, what_fn=what_rel)
    v.assumptions += ["TLC, CommunityModules", "the specification only ever compares labels for equality (run A is validated against it), "
                      "so invariance of the specification under renaming is by construction and model-checked in MC_Rel"]


# --------------------------------------------------------------------------------------
# C10: geometry and layout
# --------------------------------------------------------------------------------------
def _transforms(rng, shape):
    nd = len(shape)
    t = []
    pad = [(rng.randint(0, 3), rng.randint(0, 3)) for _ in range(nd)]
    t.append((f"pad{pad}", lambda a, pad=pad: np.pad(a, pad)))
    for ax in range(nd):
        t.append((f"flip{ax}", lambda a, ax=ax: np.flip(a, axis=ax)))
    if nd > 1:
        for perm in itertools.permutations(range(nd)):
            if perm != tuple(range(nd)):
                t.append((f"perm{perm}", lambda a, perm=perm: np.transpose(a, perm)))       # non-contiguous view
                t.append((f"perm{perm}-contig", lambda a, perm=perm: np.ascontiguousarray(np.transpose(a, perm))))
    t.append(("fortran", lambda a: np.asfortranarray(a)))
    t.append(("negstride", lambda a: np.ascontiguousarray(np.flip(a, axis=0))[::-1]))
    def strided(a):
        big = np.zeros(tuple(2 * s for s in a.shape), dtype=a.dtype)
        big[tuple(slice(None, None, 2) for _ in a.shape)] = a
        return big[tuple(slice(None, None, 2) for _ in a.shape)]
    t.append(("strided-view", strided))
    def tight(a_p, a_r):
        m = (a_p != 0) | (a_r != 0)
        if not m.any():
            return a_p, a_r
        sl = tuple(slice(int(np.where(m.any(axis=tuple(j for j in range(m.ndim) if j != i)))[0][0]),
                         int(np.where(m.any(axis=tuple(j for j in range(m.ndim) if j != i)))[0][-1]) + 1) for i in range(m.ndim))
        return a_p[sl], a_r[sl]
    return t, tight


def check_C10(tier: str, v: Verdict):
    drive.use_serial_pool()
    rng = random.Random(seed() * 7919 + 10)
    run_models(v, [("MC_Rel", "MC_Rel_geom.cfg" if tier == "quick" else "MC_Rel_geom_t.cfg")] + MODELS_QUICK)
    recs = []
    n = 500 if tier == "quick" else 6000
    for _ in range(n):
        pred, ref = gen.rand_unmatched_pair(rng, max_vox=48)
        if rng.random() < 0.4:
            # instances on the array border / last index
            pred = np.roll(pred, rng.choice([-1, 1]), axis=rng.randrange(pred.ndim))
        cfg = rand_cfg(rng, matchers=("naive", "naive", "merge"))
        ts, tight = _transforms(rng, ref.shape)
        chosen = rng.sample(ts, min(len(ts), 3 if tier == "quick" else 5))
        base = rec_evaluate(pred, ref, cfg, meta={"gen": "random"})
        for name, f in chosen:
            rec = dict(base)
            rec["meta"] = dict(base["meta"])
            pb, rb = f(pred.astype(np.uint8)), f(ref.astype(np.uint8))
            outb, resb, exc = run_evaluate(pb, rb, cfg)
            attach_b(rec, "same", outb, resb, exc, {"transform": name})
            recs.append(rec)
        rec = dict(base)
        rec["meta"] = dict(base["meta"])
        pb, rb = tight(pred.astype(np.uint8), ref.astype(np.uint8))
        outb, resb, exc = run_evaluate(pb, rb, cfg)
        attach_b(rec, "same", outb, resb, exc, {"transform": "crop-shared-margins"})
        recs.append(rec)
    # near ties: two competing candidates whose scores differ by less than 4e-4 - the better one must win in
    # every orientation of the arrays (the component numbering, hence any tie-break by label, flips with them)
    for _ in range(8 if tier == "quick" else 80):
        pred, ref = gen.near_tie_pair(rng)
        cfg = default_cfg(input=rng.choice(["SEM", "SEM", "UNM"]), matcher="naive", mm="IOU", thr=[1, 4], im=["DSC", "IOU", "RVD"], gm=["DSC"])
        base = rec_evaluate(pred, ref, cfg, meta={"gen": "near-tie"})
        fl = [("flip-all", lambda a: np.flip(a)), ("flip-last", lambda a: np.flip(a, axis=-1))]
        if pred.ndim == 2:
            fl.append(("transpose", lambda a: np.ascontiguousarray(a.T)))
        for name, f in fl:
            rec = dict(base)
            rec["meta"] = dict(base["meta"])
            outb, resb, exc = run_evaluate(f(pred.astype(np.uint8)), f(ref.astype(np.uint8)), cfg)
            attach_b(rec, "same", outb, resb, exc, {"transform": name})
            recs.append(rec)
    # instance counts at the dtype boundary of the instance maps (255 / 256 / 257 components): which
    # component is numbered last depends on the scan order, which flips and permutations change
    for k in ((255, 256, 257) if tier == "thorough" else (256,)):
        shape = (32, 34)
        ref = np.zeros(shape, dtype=np.int64)
        pos = [(i, j) for i in range(0, 32, 2) for j in range(0, 34, 2)][:k]
        for p_ in pos:
            ref[p_] = 1
        pred = ref.copy()
        pred[pos[0]] = 0
        pred[pos[1][0], pos[1][1] + 1] = 1                     # the second instance over-segmented by one voxel
        cfg = default_cfg(input="SEM", gm=["DSC", "IOU"], im=["DSC", "IOU", "RVD"])
        base = rec_evaluate(pred, ref, cfg, meta={"gen": f"components-{k}"})
        for name, f in (("flip-all", lambda a: np.flip(a)), ("transpose", lambda a: np.ascontiguousarray(a.T)), ("fortran", np.asfortranarray)):
            rec = dict(base)
            rec["meta"] = dict(base["meta"])
            outb, resb, exc = run_evaluate(f(pred.astype(np.uint8)), f(ref.astype(np.uint8)), cfg)
            attach_b(rec, "same", outb, resb, exc, {"transform": name})
            recs.append(rec)
    _count_cov(v, recs, lambda r: _eval_key(r) + (r["meta"]["transform"],), lambda r: any(r["pred"]) and any(r["ref"]))
    v.cov["rule"] = ("pairs (A, B = A zero-padded at random offsets / cropped to the shared bounding box / mirrored along an axis / with "
                     "permuted axes (views and contiguous copies) / in Fortran order / with negative strides / as a strided view) x input "
                     "types x matchers; distinct by (arrays, config, transformation); non-trivial = both sides non-empty")
    _sample(v, recs)
    validate_traces(v, "Trace_Eval", BASE + REL, recs, site_rel, what_fn=what_rel)
    from .extras import extra_crop
    extra_crop(v, tier)
    v.assumptions += ["TLC, CommunityModules", "the projection reads arrays by logical index, so layout is invisible to the specification, "
                      "which is the property; geometric invariance of the specification's operators is model-checked in MC_Rel"]


# --------------------------------------------------------------------------------------
# C11: exchanging prediction and reference
# --------------------------------------------------------------------------------------
def check_C11(tier: str, v: Verdict):
    drive.use_serial_pool()
    rng = random.Random(seed() * 7919 + 11)
    run_models(v, [("MC_Rel", "MC_Rel_swap.cfg" if tier == "quick" else "MC_Rel_swap_t.cfg")] + MODELS_QUICK)
    recs = []
    n = 2000 if tier == "quick" else 25000
    for _ in range(n):
        pred, ref = gen.rand_unmatched_pair(rng, max_vox=48)
        if rng.random() < 0.4:
            # non-contiguous label values on either side
            pred = gen.relabel_random(rng, pred, 1, 12)
            ref = gen.relabel_random(rng, ref, 1, 12)
        elif rng.random() < 0.2:
            # label values up to the maximum of the dtype on either side (fresh labels of unmatched
            # predictions then need a wider dtype - in one direction of the exchange, or in both)
            pred = gen.relabel_random(rng, pred, 1, 255)
            ref = gen.relabel_random(rng, ref, 1, 255)
            for arr in ([ref] if rng.random() < 0.5 else [ref, pred]):
                if arr.any():
                    arr[arr == arr.max()] = 255
        dt11 = np.uint8
        if rng.random() < 0.1:
            # ids of around 2^31..2^32 in wide dtypes on both sides (products of two labels exceed 2^63)
            dt11 = rng.choice([np.uint32, np.uint64])
            pred = gen.relabel_random(rng, pred, 2**31, 2**32 - 1)
            ref = gen.relabel_random(rng, ref, 2**31, 2**32 - 1)
            if rng.random() < 0.5 and pred.any():
                pred = np.where(pred == pred.max(), 1, pred)          # ... next to a small one on one side
        cfg = rand_cfg(rng, matchers=("naive",), decisions=("NONE", "NONE", "IOU", "DSC", "ASSD"))
        cfg["gm"] = rng.choice([["DSC"], ["DSC", "IOU", "ASSD"], ["DSC", "IOU", "RVD", "ASSD"]])
        rec = rec_evaluate(pred, ref, cfg, dtype=dt11, meta={"gen": "random", "transform": "swap"})
        outb, resb, exc = run_evaluate(ref.astype(dt11), pred.astype(dt11), cfg)
        attach_b(rec, "swap", outb, resb, exc)
        recs.append(rec)
    _count_cov(v, recs, _eval_key, lambda r: any(r["pred"]) and any(r["ref"]))
    v.cov["rule"] = ("pairs evaluate(pred, ref) / evaluate(ref, pred) x input types x one-to-one matcher with IoU, Dice or ASSD x decision "
                     "options; relation checked when the matching is uniquely determined in run A; distinct by (arrays, config)")
    _sample(v, recs)
    validate_traces(v, "Trace_Eval", BASE + REL, recs, site_rel, what_fn=what_rel)
    v.assumptions += ["TLC, CommunityModules"]


# --------------------------------------------------------------------------------------
# C12: class groups
# --------------------------------------------------------------------------------------
def _partitions(labels):
    """all partitions of a small label set into 1..3 blocks"""
    labels = list(labels)
    if not labels:
        yield []
        return
    first, rest = labels[0], labels[1:]
    for p in _partitions(rest):
        for i in range(len(p)):
            yield p[:i] + [[first] + p[i]] + p[i + 1:]
        if len(p) < 3:
            yield [[first]] + p


def check_C12(tier: str, v: Verdict):
    from panoptica.utils import SegmentationClassGroups, LabelGroup, LabelMergeGroup
    drive.use_serial_pool()
    rng = random.Random(seed() * 7919 + 12)
    run_models(v, [("MC_Rel", "MC_Rel_groups.cfg")] + MODELS_QUICK)
    recs = []
    parts_k = {k: list(_partitions(list(range(1, k + 1)))) for k in (3, 4, 5)}
    n = 250 if tier == "quick" else 3000
    for it in range(n):
        # the label universe: {1,2,3} x scale, or 4-5 labels with arbitrary distinct values below 64
        # (interleaved, non-contiguous, unsorted group definitions)
        wide = rng.random() < 0.35
        K = rng.choice([4, 5]) if wide else 3
        parts = parts_k[K]
        part = parts[it % len(parts)] if not wide else rng.choice(parts)
        # raw label values: small, or beyond the input dtype's range for some groups
        scale = rng.choice([1, 1, 1, 40]) if not wide else 1
        raw = {b: b * scale for b in range(1, K + 1)}
        if wide:
            raw = dict(zip(range(1, K + 1), rng.sample(range(1, 64), K)))
        kinds, gdefs = {}, {}
        for bi, block in enumerate(part):
            kind = rng.choice(["plain", "plain", "merge"]) if len(block) > 1 else rng.choice(["plain", "merge", "single"])
            if wide and len(block) > 2:
                kind = rng.choice(["plain", "merge", "merge"])
            kinds[f"g{bi}"] = kind
            gdefs[f"g{bi}"] = [raw[b] for b in block]
            if wide:
                rng.shuffle(gdefs[f"g{bi}"])
        groups = {}
        for name, labs in gdefs.items():
            if kinds[name] == "merge":
                groups[name] = LabelMergeGroup(labs, single_instance=False)
            else:
                groups[name] = LabelGroup(labs, single_instance=(kinds[name] == "single"))
        # an extra declared group whose labels never occur (dtype-overflowing ids included)
        if rng.random() < 0.4:
            groups["unused"] = LabelGroup([rng.choice([250, 257, 513, 300])], single_instance=False)
            gdefs["unused"] = groups["unused"].value_labels
            kinds["unused"] = "plain"
        gall = sorted({x for labs in gdefs.values() for x in labs})
        shape = gen.pick_shape(rng, 48)
        def arr():
            a = gen.rand_instances(rng, shape, rng.randint(1, 4 if not wide else 6))
            if wide:
                lut = np.array([0] + [raw[b] for b in range(1, K + 1)])
                return lut[(((a - 1) % K) + 1) * (a != 0)]
            return (((a - 1) % 3) + 1) * (a != 0) * scale
        pred, ref = arr(), arr()
        undefined = rng.random() < 0.2 and not wide
        if undefined:
            which = pred if rng.random() < 0.5 else ref
            if rng.random() < 0.5:
                pos = tuple(rng.randrange(s) for s in shape)
                which[pos] = 4 * scale + 1                 # a label above all group labels
            else:
                # no background voxel at all, and the SMALLEST label of the array is in no group
                which[which == 0] = rng.choice([1, 2, 3]) * scale
                pos = tuple(rng.randrange(s) for s in shape)
                which[pos] = (scale // 2) if scale > 1 else 0
                if scale == 1:
                    # shift the group labels up by one so that label 1 is undefined
                    pred, ref = pred + (pred > 0), ref + (ref > 0)
                    which = pred if which is pred else ref
                    gdefs = {k: [x + 1 for x in vv] if k != "unused" else vv for k, vv in gdefs.items()}
                    for name in list(groups):
                        if name == "unused":
                            continue
                        groups[name] = (LabelMergeGroup(gdefs[name]) if kinds[name] == "merge"
                                        else LabelGroup(gdefs[name], single_instance=(kinds[name] == "single")))
                    gall = sorted({x for labs in gdefs.values() for x in labs})
                    which[which == 0] = 2
                    which[pos] = 1
        shadowed = None
        if not undefined and not wide and "g0" in groups and rng.random() < 0.12:
            # two declared names that coincide once lower-cased: the later declaration replaces the earlier one,
            # whose labels then belong to no group (input holding them must be rejected)
            groups = dict(groups)
            groups["G0"] = LabelGroup([97], single_instance=False)
            shadowed = list(gdefs["g0"])
            gdefs["g0"], kinds["g0"] = [97], "plain"
            gall = sorted({x for labs in gdefs.values() for x in labs})
            if any(int(x) in shadowed for x in np.unique(pred)) or any(int(x) in shadowed for x in np.unique(ref)):
                undefined = True
        cfg = rand_cfg(rng, inputs=("UNM", "UNM", "MAT", "SEM"), matchers=("naive", "naive", "merge"))
        if "single" in kinds.values() and len(kinds) > 1 and cfg["dm"] == "NONE" and rng.random() < 0.7:
            # a single-instance group next to other groups under a decision threshold: what the single-instance
            # group is evaluated with (it is already matched, nothing is rejected) must not reach the others
            cfg["dm"] = rng.choice(["IOU", "DSC"])
            cfg["dthr"] = list(rng.choice([(1, 2), (2, 3), (1, 1)]))
            if cfg["dm"] not in cfg["im"]:
                cfg["im"] = list(cfg["im"]) + [cfg["dm"]]
        dt = np.uint8
        with drive.quiet():
            ev = make_evaluator(cfg, groups=SegmentationClassGroups(groups))
        for name in [n_ for n_ in groups if n_ != "G0"]:
            gd = (gdefs[name], gall, kinds[name])
            rec = rec_evaluate(pred, ref, cfg, dtype=dt, evaluator=ev, group=name, groupdef=gd,
                               meta={"gen": "random", "transform": f"group-{kinds[name]}", "partition": str(part), "scale": scale})
            # run B: the code's own ungrouped evaluation of the restricted arrays
            labs = gdefs[name]
            pr = np.where(np.isin(pred, labs), pred, 0).astype(dt)
            rr = np.where(np.isin(ref, labs), ref, 0).astype(dt)
            cfgb = dict(cfg)
            if kinds[name] == "merge":
                pr, rr = (pr != 0).astype(dt), (rr != 0).astype(dt)
            if kinds[name] == "single" and cfg["input"] != "MAT":
                cfgb["input"] = "MAT"
                cfgb["dthr"] = [0, 1]
            if undefined:
                attach_b(rec, "none", "ok", rec["resb"])
            else:
                outb, resb, exc = run_evaluate(pr, rr, cfgb)
                attach_b(rec, "same", outb, resb, exc)
            recs.append(rec)
    _count_cov(v, recs, lambda r: _eval_key(r) + (tuple(r["glabels"]), r["gkind"], tuple(r["gall"])), lambda r: any(r["pred"]) or any(r["ref"]))
    v.cov["rule"] = ("label-map pairs over labels {1,2,3}(x scale) or 4-5 arbitrary labels below 64 x all partitions into <= 3 named groups x kinds (plain, merge, single-instance) "
                     "(+ an unused group, + inputs with a label of no group) x input types; per group: A = the group's reported result, validated "
                     "against the specification applied to the restricted arrays, B = the code's ungrouped evaluation of the restricted arrays; "
                     "distinct by (arrays, config, group definition)")
    v.cov["undefined_label_inputs"] = sum(1 for r in recs if r["out"] == "raise")
    _sample(v, recs)
    validate_traces(v, "Trace_Eval", ["T_UndefinedRejected"] + BASE + REL, recs, site_rel, what_fn=what_rel)
    from .extras import extra_groups
    extra_groups(v, tier)
    v.assumptions += ["TLC, CommunityModules"]


REGISTRY = {"C09": check_C09, "C10": check_C10, "C11": check_C11, "C12": check_C12}
