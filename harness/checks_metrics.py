"""Checks C05 (instance approximation), C06 (Dice/IoU/RVD/clDice), C07 (ASSD)."""
from __future__ import annotations

import json
import math
import random
import re
import traceback

import numpy as np

from . import common, drive, gen
from .common import Machinery, Verdict, seed, run_tlc, write_ndjson
from .drive import quiet, mem_limit
from .engine import corrupt_self_test, run_models, validate_traces
from .project import TOK, flat, milli_record, rank_map, rat_record, shape_of
from .tlaparse import as_map, parse
from .rec_pipeline import METRIC, BACKEND

from panoptica import ConnectedComponentsInstanceApproximator, SemanticPair

APPROX_CLAUSES = ["T_Completes", "T_PredForeground", "T_RefForeground", "T_PredLabels1toN", "T_RefLabels1toN",
                  "T_PredIsCC", "T_RefIsCC", "T_PredPartition", "T_RefPartition"]
C06_CLAUSES = ["T_Completes", "T_Dice", "T_IoU", "T_RVD", "T_OverlapRange", "T_ClDice"]
C07_CLAUSES = ["T_Completes", "T_Assd", "T_AssdZeroIff", "T_AssdNonNeg"]


# --------------------------------------------------------------------------------------
# C05
# --------------------------------------------------------------------------------------
def rec_approx(spred, sref, backend: str, dtype=np.uint8, meta=None) -> dict:
    spred = np.asarray(spred).astype(dtype)
    sref = np.asarray(sref).astype(dtype)
    rmap = rank_map(spred, sref)
    rec = {"shape": shape_of(sref), "spred": flat(spred, rmap), "sref": flat(sref, rmap), "backend": backend,
           "out": "ok", "ipred": [], "iref": [], "npred": 0, "nref": 0, "meta": dict(meta or {})}
    rec["meta"].update({"dtype": str(np.dtype(dtype)), "raw_pred": spred.ravel().tolist(), "raw_ref": sref.ravel().tolist()})
    try:
        with quiet(), mem_limit():
            ap = ConnectedComponentsInstanceApproximator(cca_backend=BACKEND[backend])
            out = ap.approximate_instances(SemanticPair(spred.copy(), sref.copy()))
        ip, ir = np.asarray(out.prediction_arr), np.asarray(out.reference_arr)
        if ip.shape != sref.shape or ir.shape != sref.shape:
            raise ValueError("shape changed")
        rec["ipred"] = [int(x) for x in ip.ravel().tolist()]
        rec["iref"] = [int(x) for x in ir.ravel().tolist()]
        if max(rec["ipred"] + rec["iref"] + [0]) >= 2**31 or min(rec["ipred"] + rec["iref"] + [0]) < 0:
            raise ValueError("instance label out of range")
        rec["npred"] = int(out.n_prediction_instance)
        rec["nref"] = int(out.n_reference_instance)
    except Exception as e:  # noqa: BLE001
        rec["out"] = "raise"
        rec["meta"]["exception"] = f"{type(e).__name__}: {e}"[:300]
        rec["meta"]["tb"] = traceback.format_exc()[-600:]
    return rec


def site_approx(rec, clause):
    return {"backend": rec["backend"], "ndim": len(rec["shape"]), "dtype": rec["meta"]["dtype"], "out": rec["out"],
            "gen": rec["meta"].get("gen", "")}


SEM_DTYPES = [np.uint8, np.uint16, np.uint32, np.uint64, np.int8, np.int16, np.int32, np.int64]


def check_C05(tier: str, v: Verdict):
    rng = random.Random(seed() * 7919 + 5)
    run_models(v, [("MC_Approx", "MC_Approx_quick.cfg")] if tier == "quick" else
               [("MC_Approx", "MC_Approx_quick.cfg"), ("MC_Approx", "MC_Approx_2d.cfg"), ("MC_Approx", "MC_Approx_3d.cfg")])
    recs = []
    backends = ["default", "cc3d", "scipy"]
    # exhaustive small universes, each map through all three backend settings
    ex = [((5,), 2), ((2, 2), 2), ((2, 2, 2), 1)] if tier == "quick" else [((6,), 2), ((3, 3), 1), ((2, 3), 2), ((2, 2, 2), 2)]
    zero = None
    for shape, k in ex:
        arrs = list(gen.all_arrays(shape, k))
        for i, a in enumerate(arrs):
            other = arrs[(i * 7 + 3) % len(arrs)]
            for b in backends:
                recs.append(rec_approx(a, other, b, meta={"gen": f"exhaustive{shape}"}))
    n = 1500 if tier == "quick" else 20000
    for i in range(n):
        shape = gen.pick_shape(rng, 64)
        nl = rng.choice([1, 1, 2, 3])
        dens = rng.choice([0.3, 0.5, 0.7, 1.0])        # 1.0 = no background voxel at all
        a = gen.rand_semantic(rng, shape, nl, dens)
        b = gen.rand_semantic(rng, shape, nl, rng.choice([0.3, 0.6, 1.0]))
        dt = rng.choice(SEM_DTYPES)
        if rng.random() < 0.3:
            hi = min(int(np.iinfo(dt).max), 2**40)
            a = gen.relabel_random(rng, a, 1, min(hi, 10**6)) if hi > 300 else gen.relabel_random(rng, a, 1, hi)
        g = "random"
        if rng.random() < 0.25 and dt not in (np.uint8, np.int8):
            # one side small labels, the other side labels that need a wider dtype and are
            # congruent to small ones modulo 2^8 / 2^16
            pool = [1, 2, 256, 257, 258, 512] + ([65536, 65537, 65538] if dt not in (np.int16, np.uint16) else [])
            big = gen.rand_semantic(rng, shape, 3, rng.choice([0.6, 1.0]))
            m = dict(zip([1, 2, 3], rng.sample(pool, 3)))
            big = np.vectorize(lambda x: m.get(int(x), 0))(big)
            small = gen.rand_semantic(rng, shape, 2, 0.6)
            a, b = (small, big) if rng.random() < 0.7 else (big, small)
            g = "mixed-magnitude"
        recs.append(rec_approx(a, b, rng.choice(backends), dtype=dt, meta={"gen": g}))
    # instance counts at the dtype boundaries of the instance maps: 255 / 256 / 257 isolated components
    for k in (255, 256, 257):
        for shape in ((2 * k + 1,), (32, 34)):
            a = np.zeros(shape, dtype=np.int64)
            if len(shape) == 1:
                a[1:2 * k:2] = 1
            else:
                pos = [(i, j) for i in range(0, 32, 2) for j in range(0, 34, 2)][:k]
                for p_ in pos:
                    a[p_] = rng.choice([1, 2])
            b = np.zeros(shape, dtype=np.int64)
            b[tuple(0 for _ in shape)] = 1
            for be in (backends if tier == "thorough" else [rng.choice(backends)]):
                recs.append(rec_approx(a, b, be, dtype=np.uint16, meta={"gen": f"components-{k}"}))
                recs.append(rec_approx(b, a, be, dtype=np.uint16, meta={"gen": f"components-{k}"}))
    common_cov(v, recs, lambda r: (tuple(r["shape"]), tuple(r["spred"]), tuple(r["sref"]), r["backend"], r["meta"]["dtype"]),
               lambda r: any(r["spred"]) or any(r["sref"]))
    v.cov["rule"] = ("semantic maps: exhaustive tiny 1-D/2-D/3-D grids (each through default/cc3d/scipy) + seeded random maps with 1-3 "
                     "labels, densities up to 100% (no background), signed and unsigned dtypes, large label values; distinct by "
                     "(arrays, backend, dtype); non-trivial = some foreground")
    sample(v, recs)
    validate_traces(v, "Trace_Approx", APPROX_CLAUSES, recs, site_approx,
                    what_fn=lambda r, c: f"backend={r['backend']} shape={r['shape']} dtype={r['meta']['dtype']} {r['meta'].get('exception', '')[:80]}")
    if tier == "thorough":
        good = next(r for r in recs if r["out"] == "ok" and r["npred"] >= 2)
        def corrupt(r):
            r["ipred"] = [1 if x else 0 for x in r["ipred"]]
            return r
        corrupt_self_test(v, "Trace_Approx", APPROX_CLAUSES, good, corrupt)
    v.assumptions += ["TLC, CommunityModules", "semantic labels jointly rank-renamed (the spec only compares them for equality); instance labels raw"]


def common_cov(v, recs, keyf, nontriv):
    seen = {keyf(r) for r in recs if nontriv(r)}
    v.cov["evaluations"] += len(recs)
    v.cov["distinct_nontrivial"] += len(seen)


def sample(v, recs, n=3):
    for r in recs[:: max(1, len(recs) // n)][:n]:
        v.cov["samples"].append({k: r[k] for k in r if k != "meta"})


# --------------------------------------------------------------------------------------
# C06 / C07: direct metric calls
# --------------------------------------------------------------------------------------
def rec_metric(ref, pred, metric: str, sel: bool, ri=None, pis=None, dtype=np.uint8, meta=None) -> dict:
    ref = np.asarray(ref).astype(dtype)
    pred = np.asarray(pred).astype(dtype)
    extra = np.array([ri] + list(pis)) if sel else np.array([0])
    rmap = rank_map(ref.astype(np.int64), pred.astype(np.int64), extra)
    n = int(np.prod(ref.shape))
    rec = {"shape": shape_of(ref), "ref": flat(ref.astype(np.int64), rmap), "pred": flat(pred.astype(np.int64), rmap),
           "metric": metric, "sel": bool(sel), "ri": rmap.get(int(ri), 0) if sel else 0,
           "pis": [rmap.get(int(p), 0) if int(p) == 0 else rmap[int(p)] for p in pis] if sel else [0], "out": "ok", "val": TOK("skip"), "zero": False,
           "skr": [], "skp": [], "big": bool(max(ref.shape) > 46340), "meta": dict(meta or {})}
    rec["meta"].update({"dtype": str(np.dtype(dtype)), "raw_ref": ref.ravel().tolist(), "raw_pred": pred.ravel().tolist(),
                        "raw_ri": ri, "raw_pis": list(pis) if sel else None})
    try:
        with quiet(), mem_limit():
            if sel:
                pidx = pis[0] if len(pis) == 1 and meta and meta.get("scalar_pred") else list(pis)
                val = METRIC[metric](reference_arr=ref, prediction_arr=pred, ref_instance_idx=int(ri), pred_instance_idx=pidx)
            else:
                val = METRIC[metric](reference_arr=ref, prediction_arr=pred)
            if metric == "clDSC":
                from skimage.morphology import skeletonize, skeletonize_3d
                rm = (ref == ri) if sel else (ref != 0)
                pm = np.isin(pred, list(pis)) if sel else (pred != 0)
                sk = skeletonize if ref.ndim == 2 else skeletonize_3d
                rec["skr"] = [int(i) + 1 for i in np.flatnonzero(np.asarray(sk(rm)).ravel())]
                rec["skp"] = [int(i) + 1 for i in np.flatnonzero(np.asarray(sk(pm)).ravel())]
        rec["meta"]["value"] = None if val is None else float(val)
        if metric == "ASSD":
            rec["val"] = milli_record(val)
            rec["zero"] = bool(float(val) == 0.0)
        elif metric == "clDSC":
            rec["val"] = rat_record(val, 4 * n * n)
        else:
            rec["val"] = rat_record(val, 2 * n)
    except Exception as e:  # noqa: BLE001
        rec["out"] = "raise"
        rec["meta"]["exception"] = f"{type(e).__name__}: {e}"[:300]
        rec["meta"]["tb"] = traceback.format_exc()[-600:]
    return rec


def site_metric(rec, clause):
    return {"metric": rec["metric"], "sel": rec["sel"], "dtype": rec["meta"]["dtype"], "ndim": len(rec["shape"]),
            "out": rec["out"], "gen": rec["meta"].get("gen", "")}


MASK_DTYPES = [np.bool_, np.uint8, np.uint16, np.uint32, np.uint64, np.int8, np.int16, np.int32, np.int64, np.float32, np.float64]
LABEL_DTYPES = [np.uint8, np.uint16, np.uint32, np.uint64, np.int16, np.int32, np.int64]


def _defined(metric, rm, pm):
    if metric == "RVD":
        return rm.any()
    if metric == "ASSD":
        return rm.any() and pm.any()
    if metric == "clDSC":
        return rm.any() and pm.any()
    return rm.any() or pm.any()


def gen_metric_records(rng, metrics, n_random, exhaustive, dims=(1, 2, 3)):
    recs = []
    for shape, metric_list in exhaustive:
        arrs = list(gen.all_arrays(shape, 1))
        for a in arrs:
            for b in arrs:
                for m in metric_list:
                    if _defined(m, a != 0, b != 0):
                        recs.append(rec_metric(a, b, m, False, dtype=np.uint8, meta={"gen": f"exhaustive{shape}"}))
    for _ in range(n_random):
        m = rng.choice(metrics)
        d = dims if m != "clDSC" else tuple(x for x in dims if x >= 2)
        pred, ref = gen.rand_unmatched_pair(rng, max_vox=64, dims=d, max_inst=3)
        if rng.random() < 0.5:
            # with label selection: a reference label and one or several prediction labels, present or absent
            dt = rng.choice(LABEL_DTYPES)
            if rng.random() < 0.3:
                pred = gen.relabel_random(rng, pred, 1, 120)
                ref = gen.relabel_random(rng, ref, 1, 120)
            rl = [int(x) for x in np.unique(ref) if x] + [121]
            pl = [int(x) for x in np.unique(pred) if x] + [122, 123]
            style = rng.random()
            if style < 0.25:
                # long lists of prediction labels (most of them absent), sparse ids, also float arrays
                scale = rng.choice([1, 1000, 7919])
                pred, ref = pred * scale, ref * scale
                rl = [x * scale for x in rl]
                pl = [x * scale for x in pl] + [scale * j + 3 for j in range(130, 130 + rng.randint(15, 40))]
                if rng.random() < 0.4:
                    dt = rng.choice([np.float32, np.float64, np.int64, np.uint32]) if scale < 7919 else rng.choice([np.float64, np.int64])
                elif scale > 1:
                    dt = rng.choice([np.int32, np.int64, np.uint32, np.uint64])
            elif style < 0.4:
                # large NEIGHBOURING ids (class * 100000 + instance, ids around 2^24 and 2^31): selection is by
                # equality of the label, whatever its magnitude
                off = rng.choice([100000, 1000000, 2**24 - 2, 2**31 - 4, 2**31 + 1])
                pred, ref = np.where(pred > 0, pred.astype(np.int64) + off, 0), np.where(ref > 0, ref.astype(np.int64) + off, 0)
                rl = [x + off for x in rl]
                pl = [x + off for x in pl]
                dt = rng.choice([np.int64, np.uint32, np.uint64, np.float64] if off < 2**31 - 200 else [np.int64, np.uint64, np.float64])
            ri = rng.choice(rl)
            k = rng.choice([1, 1, 2, 3]) if style >= 0.25 else rng.randint(12, len(pl))
            pis = rng.sample(pl, min(k, len(pl)))
            if style >= 0.4 and np.dtype(dt).kind in "iu" and np.dtype(dt).itemsize <= 2 and rng.random() < 0.25:
                # labels the array's dtype cannot represent (a present label plus or minus a multiple of 2^bits):
                # they are absent labels and select nothing, they are not cast onto a present one
                mod = 2 ** (8 * np.dtype(dt).itemsize)
                present_p = [int(x) for x in np.unique(pred) if x]
                present_r = [int(x) for x in np.unique(ref) if x]
                if present_p and rng.random() < 0.8:
                    base = rng.choice(present_p)
                    alias = base + mod * rng.choice([1, 1, 2, -1])
                    pis = [p for p in pis if p != base][: rng.choice([0, 1])] + [alias]
                    rng.shuffle(pis)
                elif present_r:
                    ri = rng.choice(present_r) + mod * rng.choice([1, 2, -1])
            if style >= 0.4 and rng.random() < 0.15:
                # the background is a label like any other; a list of prediction labels may be empty
                which = rng.choice(["ref0", "pred0", "both0", "empty", "with0"])
                if which in ("ref0", "both0"):
                    ri = 0
                if which in ("pred0", "both0"):
                    pis = [0]
                if which == "empty":
                    pis = []
                if which == "with0":
                    pis = [0] + pis[:1]
            rm, pm = ref == ri, np.isin(pred, pis)
            if not _defined(m, rm, pm):
                continue
            recs.append(rec_metric(ref, pred, m, True, ri, pis, dtype=dt,
                                   meta={"gen": "random-selected", "scalar_pred": rng.random() < 0.5}))
        else:
            dt = rng.choice(MASK_DTYPES)
            rm, pm = ref != 0, pred != 0
            if rng.random() < 0.3:
                # nested / identical masks
                pm = rm.copy() if rng.random() < 0.5 else (rm & pm)
            if not _defined(m, rm, pm):
                continue
            recs.append(rec_metric(rm, pm, m, False, dtype=dt, meta={"gen": "random-mask"}))
    return recs


def check_C06(tier: str, v: Verdict):
    rng = random.Random(seed() * 7919 + 6)
    run_models(v, [("MC_Metrics", "MC_Metrics_quick.cfg")] if tier == "quick" else
               [("MC_Metrics", "MC_Metrics_quick.cfg"), ("MC_Metrics", "MC_Metrics_33.cfg"), ("MC_Metrics", "MC_Metrics_222.cfg"), ("MC_Metrics", "MC_Metrics_6.cfg")])
    ms = ["DSC", "IOU", "RVD"]
    if tier == "quick":
        recs = gen_metric_records(rng, ms + ["clDSC"], 3000, [((2, 2), ms), ((4,), ms)])
    else:
        recs = gen_metric_records(rng, ms + ["clDSC"], 40000, [((2, 3), ms), ((5,), ms), ((2, 2, 2), ["DSC", "RVD"])])
    common_cov(v, recs, lambda r: (tuple(r["shape"]), tuple(r["ref"]), tuple(r["pred"]), r["metric"], r["sel"], r["ri"], tuple(r["pis"]), r["meta"]["dtype"]),
               lambda r: True)
    v.cov["rule"] = ("direct Metric.DSC/IOU/RVD/clDSC calls: exhaustive mask pairs of tiny grids + seeded random label arrays in many dtypes "
                     "(bool, u/int8-64, float), with label selection (reference label, prediction label or list of labels, present or "
                     "absent) and without (0/1 masks); undefined quotients skipped; distinct by (arrays, metric, selection, dtype)")
    sample(v, recs)
    validate_traces(v, "Trace_Metrics", C06_CLAUSES, recs, site_metric,
                    what_fn=lambda r, c: f"metric={r['metric']} sel={r['sel']} dtype={r['meta']['dtype']} shape={r['shape']} value={r['meta'].get('value')} {r['meta'].get('exception', '')[:80]}")
    v.assumptions += ["TLC, CommunityModules", "clDice: the skeletons are recorded from the same skimage call the code makes and are inputs of the specification",
                      "without label selection the arrays are 0/1 masks (of any dtype)"]


def _assd_other_options():
    """ASSD has no history: calls with other options (connectivity=2, a voxel spacing) made before and
    between the judged default calls must not influence them."""
    from panoptica import Metric
    for shape in ((5,), (4, 4), (3, 3, 3)):
        a = np.zeros(shape, dtype=bool)
        b = np.zeros(shape, dtype=bool)
        a[tuple(slice(0, 2) for _ in shape)] = True
        b[tuple(slice(1, 3) for _ in shape)] = True
        for kw in ({"connectivity": 2}, {"connectivity": len(shape)}, {"voxelspacing": 2.0}):
            try:
                with quiet():
                    Metric.ASSD(a, b, **kw)
            except Exception:  # noqa: BLE001   (an option the implementation does not support: irrelevant here)
                pass


def check_C07(tier: str, v: Verdict):
    _assd_other_options()
    rng = random.Random(seed() * 7919 + 7)
    run_models(v, [("MC_Metrics", "MC_Metrics_quick.cfg")] if tier == "quick" else
               [("MC_Metrics", "MC_Metrics_quick.cfg"), ("MC_Metrics", "MC_Metrics_33.cfg"), ("MC_Metrics", "MC_Metrics_222.cfg"), ("MC_Metrics", "MC_Metrics_6.cfg")])
    if tier == "quick":
        recs = gen_metric_records(rng, ["ASSD"], 1500, [((2, 2), ["ASSD"]), ((4,), ["ASSD"])])
    else:
        recs = gen_metric_records(rng, ["ASSD"], 15000, [((2, 3), ["ASSD"]), ((6,), ["ASSD"]), ((2, 2, 2), ["ASSD"])])
    # special geometries: full-extent slabs, single voxels, one-voxel-thick plates, tight arrays, singleton axes
    recs += special_assd_records(rng, 300 if tier == "quick" else 3000)
    # long-range: an axis of more than 46340 voxels, squared distances beyond 2^31
    recs += long_range_assd_records(rng, 6 if tier == "quick" else 40)
    # embedded twins: the same pair padded / tightly cropped must give the same value
    twins = []
    for r in [x for x in recs if x["out"] == "ok" and not x["sel"]][:: 3]:
        ref = np.array(r["meta"]["raw_ref"]).reshape(r["shape"]) != 0
        pred = np.array(r["meta"]["raw_pred"]).reshape(r["shape"]) != 0
        pad = [(rng.randint(0, 2), rng.randint(0, 2)) for _ in r["shape"]]
        t = rec_metric(np.pad(ref, pad), np.pad(pred, pad), "ASSD", False, dtype=np.uint8, meta={"gen": "padded-twin", "twin_of": r["meta"].get("value")})
        twins.append(t)
    recs += twins
    common_cov(v, recs, lambda r: (tuple(r["shape"]), tuple(r["ref"]), tuple(r["pred"]), r["sel"], r["ri"], tuple(r["pis"])), lambda r: True)
    v.cov["rule"] = ("direct Metric.ASSD calls on non-empty mask pairs: exhaustive tiny grids, seeded random boxes/blobs (1-D/2-D/3-D), special "
                     "geometries (single voxels, plates, slabs spanning the array, arrays cropped tight, singleton axes), zero-padded twins; "
                     "distinct by (arrays, selection)")
    sample(v, recs)
    assd_validate(v, recs)
    v.assumptions += ["TLC, CommunityModules",
                      "TLC decides border voxels and nearest-border squared distances exactly and bounds 1000*ASSD by an integer interval; "
                      "the final real-number evaluation sum(sqrt(d)) of the bags TLC prints is done in double precision by the harness (1e-9)"]


def special_assd_records(rng, n):
    recs = []
    for _ in range(n):
        kind = rng.choice(["slab", "tight", "singleton", "plate", "voxel", "nested", "border"])
        if kind == "slab":
            shape = rng.choice([(5, 5), (4, 6), (3, 4, 4), (7,)])
            a = np.zeros(shape, bool)
            ax = rng.randrange(len(shape))
            sl = [slice(None)] * len(shape)
            other = (ax + 1) % len(shape)
            if len(shape) > 1:
                lo = rng.randint(0, shape[other] - 3)
                sl[other] = slice(lo, lo + 3)
            a[tuple(sl)] = True                      # spans the whole extent of axis ax, 3 thick
            b = np.zeros(shape, bool)
            b[tuple(slice(1, s - 1) if s > 2 else slice(None) for s in shape)] = True
        elif kind == "tight":
            shape = rng.choice([(3, 3), (4, 4), (3, 3, 3), (5,)])
            a = np.ones(shape, bool)
            b = np.zeros(shape, bool)
            b[tuple(slice(1, s - 1) if s > 2 else slice(None) for s in shape)] = True
            if rng.random() < 0.5:
                a, b = b, a
        elif kind == "singleton":
            shape = rng.choice([(4, 4, 1), (1, 5), (1, 1, 6), (3, 1, 3)])
            a = np.array([rng.random() < 0.6 for _ in range(int(np.prod(shape)))]).reshape(shape)
            b = np.array([rng.random() < 0.6 for _ in range(int(np.prod(shape)))]).reshape(shape)
        elif kind == "plate":
            shape = (4, 4, 4)
            a = np.zeros(shape, bool); a[rng.randrange(4)] = True
            b = np.zeros(shape, bool); b[:, rng.randrange(4)] = True
        elif kind == "voxel":
            shape = rng.choice([(6,), (4, 4), (3, 3, 3)])
            a = np.zeros(shape, bool); a[tuple(rng.randrange(s) for s in shape)] = True
            b = np.zeros(shape, bool); b[tuple(rng.randrange(s) for s in shape)] = True
        elif kind == "nested":
            shape = rng.choice([(6, 6), (5, 5, 5)][:1] + [(6, 6)])
            a = np.zeros(shape, bool); a[1:5, 1:5] = True
            b = np.zeros(shape, bool); b[2:4, 2:4] = True
        else:
            shape = rng.choice([(5, 5), (3, 4, 4)])
            a = np.zeros(shape, bool); a[tuple(slice(0, 2) for _ in shape)] = True
            b = np.zeros(shape, bool); b[tuple(slice(s - 2, s) for s in shape)] = True
        if not a.any() or not b.any():
            continue
        recs.append(rec_metric(a, b, "ASSD", False, dtype=rng.choice([np.bool_, np.uint8]), meta={"gen": "special-" + kind}))
    return recs


def long_range_assd_records(rng, n):
    """Few-voxel objects at opposite ends of a 1-D line / thin 2-D or 3-D strip longer than 46340
    voxels (squared distances do not fit 32 bits), optionally with a second piece nearby."""
    recs = []
    for i in range(n):
        length = rng.choice([46342, 50000, 65536, 65537, 70000, 92683, 100000])
        kind = rng.choice(["line", "line", "strip2", "strip2t", "strip3"])
        shape = {"line": (length,), "strip2": (2, length), "strip2t": (length, 2), "strip3": (1, length, 2)}[kind]
        ax = shape.index(length)
        a = np.zeros(shape, bool)
        b = np.zeros(shape, bool)

        def put(arr, lo, hi):
            sl = [slice(None)] * len(shape)
            sl[ax] = slice(lo, hi)
            blk = arr[tuple(sl)]
            blk[...] = True
            if blk.size > 2 and rng.random() < 0.5:
                flat_idx = rng.randrange(blk.size)
                blk.reshape(-1)[flat_idx] = False if blk.sum() > 1 else True
            arr[tuple(sl)] = blk
        a0 = rng.randint(0, 40)
        put(a, a0, a0 + rng.randint(1, 3))
        far = rng.choice([length - 1, length - 1, 65536 + a0 if 65536 + a0 < length else length - 1, rng.randint(46341 + a0 + 3, length - 1) if 46341 + a0 + 3 < length else length - 1])
        put(b, far - rng.randint(0, 2), far + 1)
        if rng.random() < 0.4:
            put(b, a0 + 5, a0 + 6)          # a second piece of b near a: near and far distances in one bag
        if not a.any() or not b.any():
            continue
        if rng.random() < 0.5:
            a, b = b, a
        recs.append(rec_metric(a, b, "ASSD", False, dtype=rng.choice([np.bool_, np.uint8]), meta={"gen": "long-range-" + kind}))
    return recs


_BAG = re.compile(r'<<"BAGS", (\d+), (.*)>>\s*$', re.S)


def assd_validate(v: Verdict, recs: list[dict], batch: int = 3000):
    """Trace validation for ASSD with the closed-form finish: TLC prints, per trace, the two bags
    of squared nearest-border distances; sum(sqrt) of those must equal the code's value to 1e-9."""
    from pathlib import Path
    import shutil
    sdir = common.scratch(v.prop)
    cfg = str(sdir / "trace.cfg")
    Path(cfg).write_text("SPECIFICATION Spec\n" + "".join(f"INVARIANT {i}\n" for i in C07_CLAUSES) + "CHECK_DEADLOCK FALSE\n")
    accepted = 0
    closed = 0
    try:
        for b0 in range(0, len(recs), batch):
            chunk = recs[b0:b0 + batch]
            tf = sdir / f"t{b0}.ndjson"
            write_ndjson(tf, [{k: x for k, x in r.items() if k != "meta"} for r in chunk])
            r = run_tlc("Trace_Metrics", cfg, env={"TRACE_FILE": str(tf)}, cont=True)
            v.add_tlc(r)
            if r.errors:
                raise Machinery(f"TLC error validating ASSD traces: {r.errors[0][:1200]}")
            bad = set()
            for viol in r.violations:
                tid = int(viol["vars"]["tid"])
                bad.add(tid)
                rec = chunk[tid - 1]
                v.violation(viol["inv"], site_metric(rec, viol["inv"]), {"spec": "Trace_Metrics", "invariants": C07_CLAUSES, "record": rec},
                            what=f"shape={rec['shape']} value={rec['meta'].get('value')} gen={rec['meta'].get('gen')}")
            # closed form
            bags = {}
            for line in r.raw.splitlines():
                if line.startswith('"{') and '\\"bags\\"' in line:
                    try:
                        obj = json.loads(json.loads(line))
                    except Exception:  # noqa: BLE001
                        continue
                    # entries <<d, count>> or, long-range, <<q, r, count>> with d = q * 2^20 + r
                    bags[int(obj["bags"])] = tuple({(int(e[0]) if len(e) == 2 else int(e[0]) * 1048576 + int(e[1])): int(e[-1]) for e in obj[k]}
                                                   for k in ("a", "b"))
            for tid, (ba, bb) in bags.items():
                rec = chunk[tid - 1]
                if rec["out"] != "ok" or tid in bad:
                    continue
                na, nb = sum(ba.values()), sum(bb.values())
                exact = 0.5 * (sum(c * math.sqrt(d) for d, c in ba.items()) / na + sum(c * math.sqrt(d) for d, c in bb.items()) / nb)
                got = rec["meta"].get("value")
                closed += 1
                if got is None or not (abs(got - exact) <= 1e-9 * max(1.0, abs(exact))):
                    bad.add(tid)
                    v.violation("T_AssdClosedForm", site_metric(rec, "T_AssdClosedForm"),
                                {"spec": "Trace_Metrics", "invariants": C07_CLAUSES, "record": rec, "expected": exact},
                                what=f"value={got} expected={exact}")
            need = sum(1 for x in chunk if x["out"] == "ok" and x["metric"] == "ASSD")
            if len(bags) < need:
                raise Machinery(f"TLC printed {len(bags)} bags for {need} ASSD traces")
            accepted += len(chunk) - len(bad)
    finally:
        shutil.rmtree(sdir, ignore_errors=True)
    v.cov["traces_validated_against_impl"] += accepted
    v.cov["closed_form_checked"] = v.cov.get("closed_form_checked", 0) + closed


REGISTRY = {"C05": check_C05, "C06": check_C06, "C07": check_C07}
