"""The generic check engine: model runs (M), trace batches (C->S / S->C), self-tests, verdicts."""
from __future__ import annotations

import json
import os
import time
from pathlib import Path

from . import common
from .common import Machinery, Verdict, run_tlc, write_ndjson


def run_models(v: Verdict, models: list[tuple[str, str]], expect_violation: dict[str, str] | None = None,
               timeout: int = 3000) -> None:
    """(M) model-check the specification itself.  A violation here is a bug of the model,
    i.e. a machinery error, never a verdict about /repo."""
    for module, cfg in models:
        # per-action coverage only for the state-machine models (the theorem-style models have a single
        # trivial action, and expression-level coverage of their recursive operators costs a lot of memory)
        # (cheap for the small models; for Pipeline it multiplies the run time by ten: thorough tier only)
        cov = module in ("MC_Aggregator", "MC_Objects", "LabelMap", "MC_ResultLazy") or (module == "MC_Pipeline" and v.tier == "thorough"
                                                                                          and cfg == "MC_Pipeline_thoroughall.cfg")
        r = run_tlc(module, cfg, cont=False, timeout=timeout, extra=["-coverage", "1"] if cov else None)
        v.add_tlc(r)
        # vacuity guard: per-action counts of this model run; actions never taken in ANY model of the
        # check are listed in the evidence (their properties were not exercised on the model)
        ac = v.cov.setdefault("model_action_counts", {})
        for name, n in r.coverage.items():
            ac[f"{module}.{name}"] = ac.get(f"{module}.{name}", 0) + n
        v.cov["model_actions_never_taken"] = sorted(k for k, n in ac.items() if n == 0)
        if r.errors:
            raise Machinery(f"TLC error in model {module}/{cfg}: {r.errors[0][:800]}")
        if r.violations or r.deadlocks or r.temporal_violation:
            what = (r.violations or r.deadlocks or [{"inv": "temporal"}])[0]["inv"]
            raise Machinery(f"the specification violates its own property {what} in {module}/{cfg}")
        if r.distinct == 0:
            raise Machinery(f"model {module}/{cfg} explored nothing: {r.raw[-600:]}")
        v.notes.append(f"model {cfg}: {r.distinct} distinct states, {r.states_generated} generated, {r.wall:.1f}s")


def self_test_models(v: Verdict, models: list[tuple[str, str, str]]) -> None:
    """Non-vacuity: each (module, cfg, expected property) must produce a counterexample."""
    for module, cfg, expected in models:
        r = run_tlc(module, cfg, cont=False, timeout=1800)
        got = [x["inv"] for x in r.violations]
        ok = (expected in got) or (expected in r.raw and ("is violated" in r.raw))
        if not ok:
            raise Machinery(f"self-test {cfg}: expected a counterexample to {expected}, got {got or r.errors[:1]}")
        v.notes.append(f"self-test {cfg}: counterexample to {expected} found (property is not vacuous)")


def validate_traces(v: Verdict, spec: str, invariants: list[str], records: list[dict], site_fn, clause_props=None,
                    batch: int = 4000, label: str = "", what_fn=None, env_extra: dict | None = None, spec_name: str = "Spec",
                    per_trace_states: int = 2, drift_clauses=()) -> int:
    """(C->S) hand recorded executions to TLC.  Every violated T_ invariant becomes a verdict
    for this property (or for nothing, if clause_props says the clause belongs elsewhere).
    Returns the number of traces accepted."""
    if not records:
        return 0
    # tie-explosion guard (see rec_pipeline.tie_risk): such inputs are skipped and counted
    kept = [r for r in records if r.get("meta", {}).get("tie_risk", 0) <= 18]
    if len(kept) != len(records):
        v.cov["skipped_tie_explosion"] = v.cov.get("skipped_tie_explosion", 0) + len(records) - len(kept)
        records = kept
    sdir = common.scratch(v.prop)
    accepted = 0
    cfg = str(sdir / "trace.cfg")
    Path(cfg).write_text(f"SPECIFICATION {spec_name}\n" + "".join(f"INVARIANT {i}\n" for i in invariants) + "CHECK_DEADLOCK FALSE\n")
    try:
        for b in range(0, len(records), batch):
            chunk = records[b:b + batch]
            tf = sdir / f"trace_{b}.ndjson"
            write_ndjson(tf, [{k: x for k, x in r.items() if k != "meta"} for r in chunk])
            env = {"TRACE_FILE": str(tf)}
            env.update(env_extra or {})
            r = run_tlc(spec, cfg, env=env, cont=True)
            v.add_tlc(r)
            if r.errors:
                raise Machinery(f"TLC error validating {label or spec}: {r.errors[0][:1500]}")
            if r.distinct < per_trace_states * len(chunk):
                raise Machinery(f"TLC consumed {r.distinct} states for {len(chunk)} traces ({spec}): {r.raw[-800:]}")
            bad = set()
            for viol in r.violations:
                try:
                    tid = int(viol["vars"]["tid"])
                except (KeyError, ValueError) as e:
                    raise Machinery(f"cannot attribute violation {viol}") from e
                rec = chunk[tid - 1]
                clause = viol["inv"]
                bad.add(tid)
                if clause_props is not None and clause not in clause_props:
                    continue
                if clause in drift_clauses:
                    # a clause about unspecified detail (listed last, so every property-level clause
                    # holds in this state): the model needs updating, the property is not violated
                    n = v.cov.get("drift", 0)
                    v.cov["drift"] = n + 1
                    if n < 3:
                        print(f"DRIFT property={v.prop} clause={clause}: the implementation differs from the model in a detail the "
                              f"property does not prescribe ({(what_fn(rec, clause) if what_fn else '')[:120]})", flush=True)
                    continue
                v.violation(clause, site_fn(rec, clause), {"spec": spec, "invariants": invariants, "record": rec},
                            what=(what_fn(rec, clause) if what_fn else ""))
            accepted += len(chunk) - len(bad)
    finally:
        import shutil
        shutil.rmtree(sdir, ignore_errors=True)
    v.cov["traces_validated_against_impl"] += accepted
    return accepted


def corrupt_self_test(v: Verdict, spec: str, invariants: list[str], record: dict, corrupt, expect_clause: str | None = None):
    """Binding self-test: a passing trace with one recorded field corrupted must be rejected."""
    bad = corrupt(json.loads(json.dumps(record)))
    sdir = common.scratch(v.prop + "-self")
    try:
        tf = sdir / "t.ndjson"
        cfg = str(sdir / "trace.cfg")
        Path(cfg).write_text("SPECIFICATION Spec\n" + "".join(f"INVARIANT {i}\n" for i in invariants) + "CHECK_DEADLOCK FALSE\n")
        write_ndjson(tf, [{k: x for k, x in bad.items() if k != "meta"}])
        r = run_tlc(spec, cfg, env={"TRACE_FILE": str(tf)}, cont=True, workers=2)
        names = [x["inv"] for x in r.violations]
        if not names or (expect_clause and expect_clause not in names):
            raise Machinery(f"binding self-test: corrupted trace was not rejected as expected ({names}, wanted {expect_clause})")
        v.notes.append(f"binding self-test: corrupted record rejected by {names[0]}")
    finally:
        import shutil
        shutil.rmtree(sdir, ignore_errors=True)
