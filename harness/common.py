"""Shared plumbing for the /verif checks: paths, seeds, running TLC, parsing its output,
known findings, verdict lines and evidence files.

Verdict policy (DESIGN 5): exit 0 = held on everything explored (KNOWN-FINDING lines allowed),
exit 1 + "VIOLATION property=<id> replay=<path>" = unlisted violation, exit 2 = machinery error.
"""
from __future__ import annotations

import hashlib
import json
import os
import re
import shutil
import subprocess
import sys
import time
from pathlib import Path

ROOT = Path(__file__).resolve().parent.parent
SPEC = ROOT / "spec"
EVID = ROOT / "evidence"
REPLAYS = ROOT / "replays"
JAR = "/opt/veriftools/tla/tla2tools.jar:/opt/veriftools/tla/CommunityModules-deps.jar"
PY = "/venv/bin/python"


class Machinery(Exception):
    """The verification machinery itself failed (exit 2, never a VIOLATION)."""


def seed() -> int:
    try:
        return int(os.environ.get("VERIF_SEED", "0"))
    except ValueError:
        return 0


def scratch(prop: str) -> Path:
    base = Path(os.environ.get("VERIF_SCRATCH", str(ROOT / ".scratch")))
    d = base / f"{prop}-{os.getpid()}"
    if d.exists():
        shutil.rmtree(d, ignore_errors=True)
    d.mkdir(parents=True, exist_ok=True)
    return d


# --------------------------------------------------------------------------------------
# TLC
# --------------------------------------------------------------------------------------
_MSG = re.compile(r"@!@!@STARTMSG (\d+):(\d+) @!@!@\n(.*?)\n?@!@!@ENDMSG \1 @!@!@", re.S)


class TlcResult:
    def __init__(self):
        self.states_generated = 0
        self.distinct = 0
        self.violations: list[dict] = []   # {"inv": name, "vars": {...}} one per violated state
        self.deadlocks: list[dict] = []
        self.errors: list[str] = []
        self.prints: list[str] = []
        self.coverage: dict[str, int] = {}
        self.wall = 0.0
        self.raw = ""
        self.finished = False
        self.temporal_violation = False


def _parse_state(text: str) -> dict:
    """'/\\ tid = 17\\n/\\ l = 1' -> {'tid': '17', 'l': '1'} (values kept as TLA+ text)."""
    out = {}
    cur = None
    for line in text.splitlines():
        m = re.match(r"^/\\ (\w+) = (.*)$", line)
        if m:
            cur = m.group(1)
            out[cur] = m.group(2)
        elif cur is not None and not re.match(r"^\d+: ", line):
            out[cur] += "\n" + line
        else:
            m2 = re.match(r"^(\w+) = (.*)$", line)
            if m2:
                cur = m2.group(1)
                out[cur] = m2.group(2)
    return out


def run_tlc(module: str, cfg: str | None = None, env: dict | None = None, workers: int = 16,
            cont: bool = True, simulate: str | None = None, depth: int | None = None,
            extra: list[str] | None = None, timeout: int = 3600, heap: str = "8g",
            metadir: Path | None = None, deadlock: bool | None = None,
            dfid: bool = False) -> TlcResult:
    """Run TLC in -tool mode on spec/<module>.tla and parse the message stream."""
    md = metadir or (ROOT / ".scratch" / f"tlc-{os.getpid()}-{int(time.time()*1000)%100000}")
    md.mkdir(parents=True, exist_ok=True)
    cmd = ["java", "-XX:+UseParallelGC", f"-Xmx{heap}", "-Xss32m", "-cp", JAR]
    cmd += ["tlc2.TLC", "-tool", "-workers", str(workers), "-metadir", str(md), "-noGenerateSpecTE"]
    if cont:
        cmd.append("-continue")
    if cfg:
        cmd += ["-config", cfg]
    if simulate:
        cmd += ["-simulate", simulate]
    if depth is not None:
        cmd += ["-depth", str(depth)]
    if deadlock is False:
        cmd.append("-deadlock")
    if extra:
        cmd += extra
    cmd.append(module if module.endswith(".tla") else module + ".tla")
    e = dict(os.environ)
    e.pop("JAVA_TOOL_OPTIONS", None)
    if env:
        e.update({k: str(v) for k, v in env.items()})
    t0 = time.time()
    try:
        p = subprocess.run(cmd, cwd=str(SPEC), env=e, capture_output=True, text=True, timeout=timeout)
    except subprocess.TimeoutExpired as ex:
        raise Machinery(f"TLC timed out after {timeout}s on {module}") from ex
    finally:
        shutil.rmtree(md, ignore_errors=True)
    r = TlcResult()
    r.wall = time.time() - t0
    r.raw = p.stdout + p.stderr
    pending_inv = None
    pending_kind = None
    last_state = None
    for m in _MSG.finditer(p.stdout):
        code, body = int(m.group(1)), m.group(3)
        if code == 2110:      # invariant violated
            mm = re.search(r"Invariant (\S+) is violated", body)
            if pending_inv is not None:
                r.violations.append({"inv": pending_inv, "vars": last_state or {}})
            pending_inv = mm.group(1) if mm else "?"
            pending_kind = "inv"
            last_state = None
        elif code == 2114:    # deadlock
            if pending_inv is not None:
                (r.violations if pending_kind == "inv" else r.deadlocks).append({"inv": pending_inv, "vars": last_state or {}})
            pending_inv = "deadlock"
            pending_kind = "dl"
            last_state = None
        elif code == 2217:    # a state of the error trace
            lines = body.split("\n", 1)
            last_state = _parse_state(lines[1] if len(lines) > 1 else "")
        elif code == 2107:    # invariant violated in the initial state
            mm = re.search(r"Invariant (\S+) is violated by the initial state:\n(.*)", body, re.S)
            if mm:
                r.violations.append({"inv": mm.group(1), "vars": _parse_state(mm.group(2))})
        elif code in (2116, 2122):   # temporal property violated
            r.temporal_violation = True
        elif code == 2199 or code == 2190:
            mm = re.search(r"(\d+) states generated, (\d+) distinct states found", body)
            if mm:
                r.states_generated, r.distinct = int(mm.group(1)), int(mm.group(2))
        elif code == 2193:
            r.finished = True
        elif code == 2186:
            r.finished = True
        elif code == 2772 or code == 2221:  # coverage lines handled below
            pass
        elif code // 1000 == 1 or code in (2103, 2104, 2105, 2106, 2111, 2112, 2115, 2154, 3000, 3001):
            # 1xxx = general/evaluation errors
            if code not in (1000,):
                r.errors.append(f"[{code}] {body[:2000]}")
        if code in (2772, 2773):      # action coverage "<Name line ..>: distinct:generated"
            mm = re.match(r"<(\w+) line .*?>: (\d+):(\d+)", body)
            if mm:
                r.coverage[mm.group(1)] = r.coverage.get(mm.group(1), 0) + int(mm.group(3))
    if pending_inv is not None:
        (r.violations if pending_kind == "inv" else r.deadlocks).append({"inv": pending_inv, "vars": last_state or {}})
    # user output (PrintT) arrives as code 2185 or as bare lines between messages
    for m in re.finditer(r"@!@!@STARTMSG 2185:\d+ @!@!@\n(.*?)\n@!@!@ENDMSG 2185 @!@!@", p.stdout, re.S):
        r.prints.append(m.group(1))
    mm = re.search(r"(\d+) states generated, (\d+) distinct states found", p.stdout)
    if mm:
        r.states_generated, r.distinct = int(mm.group(1)), int(mm.group(2))
    if "Model checking completed" in p.stdout or "Finished in" in p.stdout:
        r.finished = True
    if p.returncode not in (0, 12, 11, 13) and not r.violations and not r.deadlocks and not r.errors:
        r.errors.append(f"TLC exit code {p.returncode}: {p.stdout[-1500:]} {p.stderr[-500:]}")
    return r


def sany_all() -> None:
    bad = []
    for f in sorted(SPEC.glob("*.tla")):
        p = subprocess.run(["java", "-cp", JAR, "tla2sany.SANY", f.name], cwd=str(SPEC),
                           capture_output=True, text=True)
        if p.returncode != 0 or "*** Errors" in p.stdout or "Fatal" in p.stdout:
            bad.append((f.name, p.stdout[-800:]))
    if bad:
        for n, o in bad:
            print("SANY FAILED", n, o)
        raise Machinery("spec does not parse")


# --------------------------------------------------------------------------------------
# known findings, verdicts, evidence
# --------------------------------------------------------------------------------------
def load_findings() -> list[dict]:
    p = ROOT / "known_findings.json"
    if not p.exists():
        return []
    return json.loads(p.read_text()).get("findings", [])


def match_finding(prop: str, clause: str, site: dict) -> dict | None:
    """A violation is a known finding iff an entry with status 'known' for this property names
    the same failing clause and every fact of its 'site' is present, equal, in the violation."""
    for f in load_findings():
        if f.get("status") != "known" or f.get("property") != prop:
            continue
        if f.get("clause") not in (None, clause):
            continue
        if all(site.get(k) == v for k, v in f.get("site", {}).items()):
            return f
    return None


class Verdict:
    """Collects violations of one check run, prints verdict lines, writes replays + evidence."""

    def __init__(self, prop: str, tier: str):
        self.prop = prop
        self.tier = tier
        self.t0 = time.time()
        self.violations: list[dict] = []
        self.known: dict[str, int] = {}
        self.cov: dict = {"states": 0, "transitions": 0, "traces_validated_against_impl": 0,
                          "samples": [], "evaluations": 0, "distinct_nontrivial": 0}
        self.assumptions: list[str] = []
        self.notes: list[str] = []

    def add_tlc(self, r: TlcResult):
        self.cov["states"] += r.distinct
        self.cov["transitions"] += r.states_generated

    def violation(self, clause: str, site: dict, case: dict, what: str = ""):
        f = match_finding(self.prop, clause, site)
        if f is not None:
            key = f["id"]
            if key not in self.known:
                print(f"KNOWN-FINDING: property={self.prop} {f['id']}: {f['what']}", flush=True)
            self.known[key] = self.known.get(key, 0) + 1
            return
        h = hashlib.sha1(json.dumps([clause, site, case], sort_keys=True, default=str).encode()).hexdigest()[:12]
        d = REPLAYS / self.prop
        d.mkdir(parents=True, exist_ok=True)
        path = d / f"{h}.json"
        path.write_text(json.dumps({"property": self.prop, "clause": clause, "site": site, "what": what,
                                    "case": case}, indent=1, default=str))
        if len(self.violations) < 20:
            # the interface line exactly as specified, details on a line of their own
            print(f"VIOLATION property={self.prop} replay={path}", flush=True)
            print(f"  detail: clause={clause} {what}".rstrip(), flush=True)
        self.violations.append({"clause": clause, "site": site, "replay": str(path)})

    def finish(self, level: str = "model_checking") -> int:
        EVID.mkdir(exist_ok=True)
        cov = dict(self.cov)
        cov["samples"] = cov["samples"][:6] or ["(none)"]
        cov["known_findings_hit"] = self.known
        cov["notes"] = self.notes
        ev = {"property_id": self.prop, "tier": self.tier, "seed": seed(), "level": level,
              "coverage": cov, "assumptions": self.assumptions, "wall_s": round(time.time() - self.t0, 2),
              "violations": len(self.violations)}
        (EVID / f"{self.prop}.json").write_text(json.dumps(ev, indent=1, default=str))
        if self.violations:
            print(f"{self.prop}: {len(self.violations)} violation(s)", flush=True)
            return 1
        print(f"{self.prop}: OK  states={cov['states']} traces={cov['traces_validated_against_impl']} "
              f"evaluations={cov['evaluations']} wall={ev['wall_s']}s", flush=True)
        return 0


def write_ndjson(path: Path, records: list[dict]) -> None:
    with open(path, "w") as f:
        for r in records:
            f.write(json.dumps(r, separators=(",", ":")) + "\n")
