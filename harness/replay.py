"""./check <id> --replay <path>: rerun exactly the recorded case against the current tree.

The replay file holds the failing clause, the site facts and the case.  Where the case can be
re-recorded from its raw input (matcher, evaluate, approximation, metric calls, aggregator
histories, object histories) it is executed again on the real code and the fresh trace is judged
by the same trace specification and invariants; otherwise the stored record is re-validated.
exit 1 + VIOLATION line if the violation is still there, exit 0 if the case now passes."""
from __future__ import annotations

import json
from pathlib import Path

import numpy as np

from . import common
from .common import Machinery, Verdict


def _arr(flat, shape, dtype):
    return np.array(flat, dtype=object).astype(dtype).reshape(shape) if "int" in str(dtype) else np.array(flat).astype(dtype).reshape(shape)


def replay(path: str) -> int:
    d = json.loads(Path(path).read_text())
    prop, case = d["property"], d["case"]
    v = Verdict(prop, "quick")
    kind = case.get("kind")
    from .engine import validate_traces
    if kind == "aggregator-history":
        from .checks_agg import _run_history, validate_histories
        res = _run_history((case["scn"], case["sessions"], str(common.scratch("replay-agg")), "replay"))
        if res.get("job_timeout"):
            from .checks_agg import JOB_TIMEOUTS
            JOB_TIMEOUTS.append(res)
            validate_histories(v, [], prop)
        else:
            validate_histories(v, [res], prop)
    elif kind == "uncontrolled-stress":
        from .checks_agg import stress_uncontrolled
        root = common.scratch("replay-stress")
        stress_uncontrolled(v, prop, root, 1)
    elif kind == "object-history":
        from . import checks_objects as co
        from .common import run_tlc, write_ndjson
        t = co.run_history(case["actions"], common.scratch("replay-obj"))
        sdir = common.scratch("replay-obj-t")
        cfg = sdir / "t.cfg"
        cfg.write_text("SPECIFICATION Spec\n" + "".join(f"INVARIANT {i}\n" for i in co.C15_CLAUSES))
        write_ndjson(sdir / "t.ndjson", [{"ev": [{k: x for k, x in e.items() if k not in ("exception", "tb")} for e in t["ev"]], "nominal": t["nominal"]}])
        r = run_tlc("Trace_Objects", str(cfg), env={"TRACE_FILE": str(sdir / "t.ndjson")}, cont=True, workers=2)
        for viol in r.violations:
            v.violation(viol["inv"], d["site"], case, what="replayed history still violates")
            break
    else:
        spec, invs, rec = case["spec"], case["invariants"], case["record"]
        fresh = rec
        meta = rec.get("meta", {})
        try:
            from . import drive
            drive.use_serial_pool()
            dt = np.dtype(meta.get("dtype", "uint8")) if meta.get("dtype") not in (None, "none") else None
            if spec == "Trace_Match" and dt is not None:
                from .rec_pipeline import rec_match
                fresh = rec_match(_arr(meta["raw_pred"], rec["shape"], dt), _arr(meta["raw_ref"], rec["shape"], dt), rec["matcher"], rec["mm"],
                                  tuple(rec["thr"]), chain=[tuple(c["thr"]) for c in rec.get("chain", [])], dtype=dt, meta={"gen": meta.get("gen", "")},
                                  layout=meta.get("layout", "C"), history=tuple((h[0], h[1], tuple(h[2])) for h in meta.get("history", [])))
            elif spec == "Trace_Eval" and dt is not None and rec.get("rel", "none") == "none" and not rec.get("glabels") and rec["cfg"]["input"] != "DIRECT":
                from .rec_pipeline import rec_evaluate
                fresh = rec_evaluate(_arr(meta["raw_pred"], rec["shape"], dt), _arr(meta["raw_ref"], rec["shape"], dt), rec["cfg"], dtype=dt,
                                     meta={"gen": meta.get("gen", "")})
            elif spec == "Trace_Approx" and dt is not None:
                from .checks_metrics import rec_approx
                fresh = rec_approx(_arr(meta["raw_pred"], rec["shape"], dt), _arr(meta["raw_ref"], rec["shape"], dt), rec["backend"], dtype=dt)
            elif spec == "Trace_Metrics" and dt is not None:
                from .checks_metrics import rec_metric
                fresh = rec_metric(_arr(meta["raw_ref"], rec["shape"], dt), _arr(meta["raw_pred"], rec["shape"], dt), rec["metric"], rec["sel"],
                                   meta.get("raw_ri"), meta.get("raw_pis") or [], dtype=dt, meta={"scalar_pred": meta.get("scalar_pred", False)})
        except Exception as e:  # noqa: BLE001
            print(f"(could not re-record the case, re-validating the stored record: {type(e).__name__}: {e})")
            fresh = rec
        validate_traces(v, spec, invs, [fresh], lambda r, c: d["site"], what_fn=lambda r, c: "replayed case")
    if v.violations or v.known:
        print(f"replay: the case still violates {d['clause']}" if v.violations else "replay: known finding")
        return 1 if v.violations else 0
    print("replay: the case passes on the current tree")
    return 0
