"""/verif harness.  The checks import panoptica from /repo's working tree (editable install in
/venv).  VERIF_REPO=<dir> overrides the tree (used only for background sweeps that must not be
disturbed while seeded changes are applied to /repo; registered commands never set it)."""
import os
import sys

_r = os.environ.get("VERIF_REPO")
if _r and os.path.isdir(os.path.join(_r, "panoptica")):
    sys.path.insert(0, _r)
