"""Projection functions: real panoptica state -> the abstract state of the TLA+ specification.

Kept tiny on purpose (they are part of the trusted base and are listed in every evidence file):
  * label maps  -> (shape, flat C-order list by logical index) after a joint, order-preserving
                   rank renaming of all raw label values of one trace (0 stays 0)
  * floats      -> exact rationals [n, d] (value record {"k": "rat", "v": [n, d]}), tokens for
                   nan / inf / -inf / None, integer milli units for ASSD-valued entries
"""
from __future__ import annotations

import math
from fractions import Fraction

import numpy as np


def rank_map(*arrays) -> dict[int, int]:
    vals = set()
    for a in arrays:
        if a is None:
            continue
        for v in np.unique(np.asarray(a)):
            vals.add(int(v))
    vals.discard(0)
    return {v: i + 1 for i, v in enumerate(sorted(vals))}


def flat(a: np.ndarray, rmap: dict[int, int] | None = None) -> list[int]:
    """Logical C-order flattening (layout, strides and dtype disappear here)."""
    out = [int(x) for x in np.asarray(a).ravel(order="C").tolist()]
    if rmap is not None:
        out = [0 if x == 0 else rmap[x] for x in out]
    return out


def shape_of(a: np.ndarray) -> list[int]:
    return [int(s) for s in a.shape]


TOK = lambda k: {"k": k, "v": [0, 1]}  # noqa: E731


def rat_record(x, maxden: int) -> dict:
    """Project a float that is supposed to be a rational with denominator <= maxden."""
    if x is None:
        return TOK("none")
    try:
        xf = float(x)
    except (TypeError, ValueError):
        return TOK("irr")
    if math.isnan(xf):
        return TOK("nan")
    if math.isinf(xf):
        return TOK("inf") if xf > 0 else TOK("ninf")
    fr = Fraction(xf).limit_denominator(maxden)
    # Two distinct fractions with denominators <= Q differ by at least 1/Q^2, so anything within
    # a quarter of that is the unique candidate; float evaluation errors (a few ulp, more after
    # cancellation in a mean) are orders of magnitude below it for the Q used here (<= 1e6).
    tol = max(8 * abs(math.ulp(xf)), 0.25 / float(maxden) ** 2)
    if abs(float(fr) - xf) <= tol:
        if abs(fr.numerator) < 2**30 and fr.denominator < 2**30:
            return {"k": "rat", "v": [fr.numerator, fr.denominator]}
        return TOK("skip")
    return TOK("irr")


def milli_record(x) -> dict:
    if x is None:
        return TOK("none")
    xf = float(x)
    if math.isnan(xf):
        return TOK("nan")
    if math.isinf(xf):
        return TOK("inf") if xf > 0 else TOK("ninf")
    v = math.floor(xf * 1000.0 + 1e-9)
    if abs(v) >= 2**30:
        return TOK("skip")
    return {"k": "milli", "v": [int(v), 1000]}


def var_record(std, maxden: int) -> dict:
    """Standard deviations are projected as variances (std squared is rational)."""
    if std is None:
        return TOK("none")
    s = float(std)
    if math.isnan(s) or math.isinf(s):
        return rat_record(s, 1)
    v = s * s
    fr = Fraction(v).limit_denominator(maxden)
    # the candidate must reproduce the reported standard deviation itself to 1e-9 (a variance of
    # 1e-16 where 0 is due, or NaN, is not the population standard deviation of the list)
    if abs(float(fr) - v) <= max(16 * abs(math.ulp(v)), 0.25 / float(maxden) ** 2) and abs(math.sqrt(float(fr)) - s) <= 1e-9 * max(1.0, s):
        if abs(fr.numerator) < 2**30 and fr.denominator < 2**30:
            return {"k": "rat", "v": [fr.numerator, fr.denominator]}
        return TOK("skip")
    return TOK("irr")


def lcm_list(xs) -> int:
    out = 1
    for x in xs:
        out = out * x // math.gcd(out, x)
    return out
