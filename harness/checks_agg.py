"""Checks C16 (concurrent aggregation) and C17 (crashes, restarts, neighbouring aggregators)."""
from __future__ import annotations

import concurrent.futures as cf
import json
import os
import random
import re
import shutil
import time
from pathlib import Path

from . import common
from .aggctl import MAIN, Hang, History, Scenario, policy_random, policy_script, policy_sequential
from .common import Machinery, Verdict, run_tlc, seed, write_ndjson
from .engine import run_models, self_test_models

E = lambda a, s: {"agg": a, "kind": "eval", "subj": s}   # noqa: E731
S = lambda a: {"agg": a, "kind": "stat", "subj": "-"}    # noqa: E731

STRICT_INVS = ["NoDupRows", "HeaderFirstOnce", "RowsAreSubjects", "SnapOnlyComplete", "ExactlyOnePerSubject",
               "NoCallFailed", "SiblingsIndependent"]
OBS_INVS = ["NoDupRows", "HeaderFirstOnce", "RowsAreSubjects", "RowsAppendOnly", "ExactlyOnePerSubject", "SnapOnlyComplete", "SnapWithinRead",
            "NoCallFailed", "ForeignRefused", "CtorSucceeds"]


# --------------------------------------------------------------------------------------
# running histories (in parallel worker processes; each history forks its own sessions)
# --------------------------------------------------------------------------------------
JOB_TIMEOUT_S = 240
JOB_TIMEOUTS: list = []      # jobs whose history (incl. the uncontrolled reference run) never came back
ABANDON = [False]            # set after repeated job timeouts: the code under test wedges the interpreters, no more histories


def _run_history(job):
    """one history, bounded in time: the reference run and the sessions execute the real code, which may block
    forever where no wrapper sees it (SIGALRM in the worker's main thread)"""
    from .drive import CallTimeout, time_limit
    if ABANDON[0]:
        return {"job_timeout": True, "skipped": True, "tag": job[3], "scn": job[0], "sessions": job[1]}
    try:
        with time_limit(JOB_TIMEOUT_S):
            return _run_history_inner(job)
    except CallTimeout:
        shutil.rmtree(job[2], ignore_errors=True)
        return {"job_timeout": True, "tag": job[3], "scn": job[0], "sessions": job[1]}


def _run_history_inner(job):
    """job = (scenario args, list of session specs, workdir).  A session spec is
    {"policy": ("random", seed, stick) | ("script", [actors]) | ("seq",), "kill_at": int | None}"""
    scn_args, sessions, workdir, tag = job
    scn = Scenario(**scn_args)
    h = History(scn, Path(workdir))
    try:
        for sp in sessions:
            pol = sp["policy"]
            if pol[0] == "random":
                p = policy_random(random.Random(pol[1]), pol[2])
            elif pol[0] == "script":
                p = policy_script(pol[1])
            else:
                p = policy_sequential
            h.run_session(p, kill_at=sp.get("kill_at"))
            if h.deadlock or h.hang:
                break
        strict, own = h.strict_trace()
        flags = detect_flags(h)
        if not flags["headernoclaim"]:
            for ev in strict["ev"]:
                if ev["files"]:
                    for k, f in ev["files"].items():
                        if k.startswith("buf"):
                            f["ls"] = ["H" if x == "subject_name" else x for x in f["ls"]]
        return {"tag": tag, "scn": scn_args, "sessions": sessions, "strict": strict, "own": own, "flags": flags,
                "obs": h.obs_trace(), "deadlock": h.deadlock, "hang": h.hang, "failed": h.failed_calls, "anomalies": h.anomalies,
                "schedule": h.schedule, "nevents": len(h.events), "scen_json": h.scen_json(own, flags["headeronempty"], flags["headernoclaim"]),
                "ops": [(e["p"], e["op"]) for e in h.events]}
    finally:
        shutil.rmtree(workdir, ignore_errors=True)


def detect_flags(h: History) -> dict:
    """Which design the code under test follows in the three places the model has a constant for
    (strict validation adapts; the verdict never depends on these)."""
    hnc = True
    hoe = True
    for ev in h.events:
        if ev.get("session_marker"):
            continue
        for p, f in ev["bufs"].items():
            if "subject_name" in f["ls"] and "subject_name" not in [c["subj"] for c in h.scn.calls] + h.scn.prior:
                hnc = False
    if h.scn.init == "empty":
        # after the first constructor: does the file start with the header?
        for ev in h.events:
            if ev.get("op") == "atexit_register":
                hoe = bool(ev["files"]["out_" + h.scn.aggs[0]]["ls"][:1] == ["H"])
                break
    return {"headernoclaim": hnc, "headeronempty": hoe}


def run_histories(jobs, workers=14):
    """run the jobs in worker processes.  A job that does not come back within JOB_TIMEOUT_S is noted in
    JOB_TIMEOUTS (reported as a Hang by validate_histories); after three of them the remaining jobs are
    abandoned - the workers' interpreters are presumably wedged by the code under test."""
    import os
    import signal
    out = []
    if ABANDON[0] or not jobs:
        return out
    ex = cf.ProcessPoolExecutor(max_workers=workers)
    futs = [ex.submit(_run_history, j) for j in jobs]
    n_to = 0
    try:
        for f in cf.as_completed(futs):
            r = f.result()
            if r.get("job_timeout"):
                JOB_TIMEOUTS.append(r)
                n_to += 1
                if n_to >= 3:
                    ABANDON[0] = True
                    break
            else:
                out.append(r)
    finally:
        for f in futs:
            f.cancel()
        procs = list(getattr(ex, "_processes", {}).values())
        ex.shutdown(wait=n_to < 3, cancel_futures=True)
        if n_to >= 3:
            for p_ in procs:
                try:
                    os.kill(p_.pid, signal.SIGKILL)
                except (ProcessLookupError, AttributeError):
                    pass
    return out


# --------------------------------------------------------------------------------------
# TLC side
# --------------------------------------------------------------------------------------
def validate_histories(v: Verdict, results, prop: str):
    """strict (Trace_Aggregator) and observational (AggObs) validation of recorded histories."""
    for jt in JOB_TIMEOUTS[:5]:
        v.violation("Hang", {"scenario": jt["scn"].get("name", ""), "job_timeout": True}, {"kind": "aggregator-history", "scn": jt["scn"], "sessions": jt["sessions"]},
                    what=f"{jt['tag']} scenario={jt['scn'].get('name')}: the history (uncontrolled reference run included) did not finish within {JOB_TIMEOUT_S} s")
    del JOB_TIMEOUTS[:]
    if not results:
        return
    sdir = common.scratch(prop)
    drift = 0
    try:
        # ---- observational: the verdict ----
        obs_cfg = sdir / "obs.cfg"
        obs_cfg.write_text("SPECIFICATION Spec\n" + "".join(f"INVARIANT {i}\n" for i in OBS_INVS) + "CHECK_DEADLOCK FALSE\n")
        tf = sdir / "obs.ndjson"
        write_ndjson(tf, [r["obs"] for r in results])
        r = run_tlc("AggObs", str(obs_cfg), env={"TRACE_FILE": str(tf)}, cont=True)
        v.add_tlc(r)
        if r.errors:
            raise Machinery(f"TLC error in AggObs: {r.errors[0][:1500]}")
        bad_obs = {}
        for viol in r.violations:
            tid = int(viol["vars"]["tid"])
            bad_obs.setdefault(tid, (viol["inv"], int(viol["vars"].get("l", "0"))))
        anomalous = []
        for i, res in enumerate(results, start=1):
            site = site_of(res)
            if res["deadlock"]:
                v.violation("Deadlock", site, case_of(res), what=f"no grantable thread: {res['deadlock']}")
            elif res["hang"]:
                v.violation("Hang", site, case_of(res), what=res["hang"])
            if res.get("anomalies"):
                anomalous.append((res, site))
            if i in bad_obs:
                clause, l = bad_obs[i]
                site = dict(site)
                site["at_op"] = res["ops"][l - 1][1] if 0 < l <= len(res["ops"]) else ""
                v.violation(clause, site, case_of(res), what=f"{res['tag']} scenario={res['scn'].get('name')} at event {l}")
        # a lock that let two workers in at once is a mechanism-level observation: it is reported as a
        # violation only together with an outcome-level violation found in this run, otherwise as ANOMALY
        if anomalous:
            v.cov["lock_anomalies"] = v.cov.get("lock_anomalies", 0) + len(anomalous)
            if v.violations:
                for res, site in anomalous[:5]:
                    v.violation(res["anomalies"][0]["kind"], site, case_of(res), what=f"{res['tag']} scenario={res['scn'].get('name')}: {res['anomalies'][0]}")
            else:
                print(f"ANOMALY property={prop} {len(anomalous)} histories in which a lock admitted a second worker "
                      f"({anomalous[0][0]['anomalies'][0]}), but every observable invariant held", flush=True)
        # ---- strict: the binding to Aggregator.tla (rejection with AggObs satisfied = DRIFT) ----
        groups = {}
        for i, res in enumerate(results):
            groups.setdefault(json.dumps(res["scen_json"], sort_keys=True), []).append(i)
        accepted = 0
        for gi, (sj, idxs) in enumerate(groups.items()):
            scen_file = sdir / f"scen{gi}.json"
            scen_file.write_text(sj)
            tfile = sdir / f"strict{gi}.ndjson"
            write_ndjson(tfile, [results[i]["strict"] for i in idxs])
            cfg = sdir / f"strict{gi}.cfg"
            cfg.write_text("SPECIFICATION TSpec\n" + "".join(f"INVARIANT {i}\n" for i in STRICT_INVS))
            r = run_tlc("Trace_Aggregator", str(cfg), env={"TRACE_FILE": str(tfile), "SCEN_FILE": str(scen_file)}, cont=True)
            v.add_tlc(r)
            if r.errors:
                raise Machinery(f"TLC error in Trace_Aggregator: {r.errors[0][:1500]}")
            rejected = {}
            for d in r.deadlocks:
                tid = int(d["vars"]["tid"])
                rejected[tid] = max(rejected.get(tid, 0), int(d["vars"]["l"]))
            for viol in r.violations:
                tid = int(viol["vars"]["tid"])
                rejected.setdefault(tid, int(viol["vars"].get("l", 0)))
            for k, i in enumerate(idxs, start=1):
                if k in rejected:
                    res = results[i]
                    if (i + 1) not in bad_obs and not res["deadlock"] and not res["hang"]:
                        drift += 1
                        l = rejected[k]
                        nxt = res["ops"][l] if l < len(res["ops"]) else None
                        if drift <= 3:
                            print(f"DRIFT property={prop} strict trace rejected after {l} events (next: {nxt}) but every "
                                  f"observable invariant holds: the model's step structure needs updating", flush=True)
                else:
                    accepted += 1
        v.cov["traces_validated_against_impl"] += accepted
        v.cov["drift"] = v.cov.get("drift", 0) + drift
    finally:
        shutil.rmtree(sdir, ignore_errors=True)


def binding_self_test(v: Verdict, res, prop: str):
    """Demonstrates the binding: a recorded history with one event removed, and one with a corrupted
    file content, must both be rejected by the strict trace specification."""
    import copy
    sdir = common.scratch(prop + "-selftest")
    try:
        dropped = copy.deepcopy(res["strict"])
        k = len(dropped["ev"]) // 2
        del dropped["ev"][k]
        corrupt = copy.deepcopy(res["strict"])
        for ev in corrupt["ev"][k:]:
            for name, f in ev["files"].items():
                if name.startswith("out_") and f["ls"]:
                    f["ls"] = f["ls"] + ["ghost"]
        scen = sdir / "scen.json"
        scen.write_text(json.dumps(res["scen_json"]))
        write_ndjson(sdir / "t.ndjson", [dropped, corrupt])
        cfg = sdir / "t.cfg"
        cfg.write_text("SPECIFICATION TSpec\n" + "".join(f"INVARIANT {i}\n" for i in STRICT_INVS))
        r = run_tlc("Trace_Aggregator", str(cfg), env={"TRACE_FILE": str(sdir / "t.ndjson"), "SCEN_FILE": str(scen)}, cont=True, workers=2)
        rejected = {int(d["vars"]["tid"]) for d in r.deadlocks} | {int(x["vars"]["tid"]) for x in r.violations}
        if rejected != {1, 2}:
            raise Machinery(f"binding self-test: tampered aggregator traces were not rejected (rejected={rejected})")
        v.notes.append("binding self-test: a history with one event removed and one with a corrupted file content were both rejected by Trace_Aggregator")
    finally:
        shutil.rmtree(sdir, ignore_errors=True)


def single_worker_kill_hazard(v: Verdict, root: Path):
    """Beyond C16/C17 (DESIGN 8): the model predicts that ONE worker killed inside a critical section
    orphans the lock and blocks every other call; the experiment kills one forked worker right after it
    acquired the claim lock and observes whether the others can still get in.  Reported in the evidence,
    never as a violation of C16 (which quantifies over schedules without crashes)."""
    from .aggctl import History, Scenario, policy_sequential
    r = run_tlc("MC_Aggregator", "MC_Agg_killone.cfg", cont=False, timeout=600)
    model = any(x["inv"] == "NoOrphanedLock" for x in r.violations)
    sc = scn("kill-one-worker", ["A"], [E("A", "a"), E("A", "b"), E("A", "c")], workers="processes")
    h = History(Scenario(**sc), root / "killone")
    try:
        h.run_session(policy_sequential, kill_worker=(1, "acq_eval"))
    finally:
        shutil.rmtree(root / "killone", ignore_errors=True)
    blocked = h.deadlock is not None and h.deadlock.get("lock_owner", {}).get("eval") == 1
    v.cov["hazard_single_worker_kill"] = {"model_counterexample_NoOrphanedLock": model, "code_other_workers_blocked_forever": blocked,
                                          "rows_written": [e for e in (h.events[-1]["files"]["out_A"]["ls"] if h.events and "files" in h.events[-1] else [])]}
    v.notes.append(f"hazard (outside the listed properties): one worker killed while holding the claim lock -> model counterexample: {model}, "
                   f"real code: remaining workers blocked forever: {blocked}")


def site_of(res):
    scn = res["scn"]
    kills = [s.get("kill_at") for s in res["sessions"]]
    return {"scenario": scn.get("name", ""), "workers": scn.get("workers", "threads"), "init": scn["init"], "aggs": len(scn["aggs"]), "same_dir": scn.get("same_dir", True),
            "killed": any(k is not None for k in kills), "sessions": len(res["sessions"]),
            "subject_named_like_header": any(c["subj"] == "subject_name" for c in scn["calls"])}


def case_of(res):
    return {"kind": "aggregator-history", "scn": res["scn"], "sessions": res["sessions"], "schedule": res["schedule"],
            "ops": res["ops"][-40:], "failed": res["failed"], "deadlock": res["deadlock"], "hang": res["hang"]}


# --------------------------------------------------------------------------------------
# TLC behaviours -> schedules (S -> C)
# --------------------------------------------------------------------------------------
_LASTOP = re.compile(r'lastop = \[p \|-> (-?\d+), op \|-> "(\w+)"\]')


def tlc_behaviours(cfg: str, num: int, depth: int, sd: int):
    """simulate Aggregator.tla and return the behaviours as lists of (actor, op)"""
    sdir = common.scratch("sim")
    try:
        prefix = sdir / "b"
        r = run_tlc("MC_Aggregator", cfg, simulate=f"file={prefix},num={num}", depth=depth, workers=1, cont=False,
                    extra=["-seed", str(sd)], timeout=600)
        beh = []
        for f in sorted(sdir.glob("b*")):
            steps = _LASTOP.findall(f.read_text())
            beh.append([(int(p), op) for p, op in steps[1:]])     # first state: the "start" marker
        return beh, r
    finally:
        shutil.rmtree(sdir, ignore_errors=True)


def sessions_from_behaviour(beh):
    """split a TLC behaviour at crash / restart markers into session specs"""
    sessions, cur = [], []
    for p, op in beh:
        if op == "crash":
            sessions.append({"policy": ("script", [a for a, _ in cur]), "kill_at": len(cur), "expect": cur})
            cur = []
        elif op == "restart":
            sessions.append({"policy": ("script", [a for a, _ in cur]), "kill_at": None, "expect": cur})
            cur = []
        else:
            cur.append((p, op))
    sessions.append({"policy": ("script", [a for a, _ in cur]), "kill_at": None, "expect": cur})
    return sessions


# --------------------------------------------------------------------------------------
# scenarios
# --------------------------------------------------------------------------------------
def scn(name, aggs, calls, init="absent", prior=(), normal_exit=True, same_dir=True, out_names=None, workers="threads",
        split_writes=False):
    return dict(aggs=aggs, calls=calls, init=init, prior=list(prior), normal_exit=normal_exit, same_dir=same_dir, name=name,
                out_names=out_names or {}, workers=workers, split_writes=split_writes)


C16_SCENARIOS = [
    scn("dup+stat", ["A"], [E("A", "a"), E("A", "b"), E("A", "a"), S("A")]),
    scn("triple", ["A"], [E("A", "a"), E("A", "a"), E("A", "a")]),
    scn("four", ["A"], [E("A", "a"), E("A", "b"), E("A", "c"), E("A", "d")], init="header"),
    scn("continue+stat", ["A"], [E("A", "a"), E("A", "b"), S("A"), E("A", "z")], init="rows", prior=["z"]),
    scn("header-named", ["A"], [E("A", "subject_name"), E("A", "a")]),
    # the same calls by forked worker processes (the real lock objects decide who gets in)
    scn("dup-processes", ["A"], [E("A", "a"), E("A", "b"), E("A", "a")], workers="processes"),
    scn("four-processes+stat", ["A"], [E("A", "a"), E("A", "b"), E("A", "c"), S("A")], init="header", workers="processes"),
    # the environment in which a row reaches the file in two pieces (a long row through a buffered
    # writer): statistics built in between must still reflect only complete rows
    # subject names that are prefixes / suffixes / substrings of one another, the longer one claimed first:
    # a name is claimed or finished only if THAT name is in the list
    scn("affix-names", ["A"], [E("A", "s10"), E("A", "s1"), E("A", "0"), E("A", "1")]),
    scn("affix-names-processes", ["A"], [E("A", "case21"), E("A", "21"), E("A", "case2")], workers="processes"),
    scn("split+stat", ["A"], [E("A", "a"), E("A", "b"), S("A"), S("A")], split_writes=True),
    scn("split-continue+stat", ["A"], [E("A", "a"), S("A"), E("A", "b")], init="rows", prior=["z"], split_writes=True),
]
MC16 = {"dup+stat": "MC_Agg_c16_dup.cfg", "triple": "MC_Agg_c16_triple.cfg", "four": "MC_Agg_c16_four.cfg",
        "split+stat": "MC_Agg_c16_split.cfg"}


def jobs_random(scns, n_per, base_seed, root, kill=False, sessions=1):
    jobs = []
    k = 0
    for sc in scns:
        for i in range(n_per):
            sd = base_seed * 1000003 + k
            k += 1
            sess = [{"policy": ("random", sd + j, random.Random(sd).choice([0.0, 0.5, 0.8])), "kill_at": None} for j in range(sessions)]
            jobs.append((sc, sess, str(root / f"h{k}"), "random-schedule"))
    return jobs


def preemption_schedules(sc, root, limit, rng):
    """bounded exploration of the code's own yield points: replay a prefix, then run sequentially;
    every position where another thread could have been chosen spawns a new prefix (<= 2 preemptions)."""
    jobs = []
    base = _run_history((sc, [{"policy": ("seq",), "kill_at": None}], str(root / "base"), "dfs-base"))
    if base.get("job_timeout"):
        if not base.get("skipped"):
            JOB_TIMEOUTS.append(base)
            ABANDON[0] = True
        return [], []
    sched = base["schedule"]
    ops = base["ops"]
    calls = list(range(1, len(sc["calls"]) + 1))
    first_call = next((i for i, (p, _) in enumerate(ops) if p != MAIN), len(ops))
    positions = list(range(first_call, len(sched)))
    cands = []
    for i in positions:
        for other in calls:
            if other != sched[i]:
                cands.append((sched[:i] + [other],))
    rng.shuffle(cands)
    for k, (prefix,) in enumerate(cands[:limit]):
        jobs.append((sc, [{"policy": ("script", prefix), "kill_at": None}], str(root / f"p{k}"), "one-preemption"))
    # switch and stay: at position i another call takes over and runs as far as it gets.  Positions inside a
    # critical window of the environment (right after the first piece of a split row went out) are all taken
    stay = [(i, other) for i in positions for other in calls if other != sched[i]]
    window = [(i, o) for (i, o) in stay if i > 0 and i - 1 < len(ops) and ops[i - 1][1] in ("part_out", "flush_out")]
    rng.shuffle(stay)
    for k, (i, other) in enumerate(window + stay[: max(2, limit // 2)]):
        jobs.append((sc, [{"policy": ("script", sched[:i] + [other] * 12), "kill_at": None}], str(root / f"s{k}"), "switch-and-stay"))
    # two preemptions: extend some one-preemption prefixes
    for k, (prefix,) in enumerate(cands[: max(1, limit // 3)]):
        other = rng.choice(calls)
        pre2 = prefix + [prefix[-1]] * rng.randint(1, 4) + [other]
        jobs.append((sc, [{"policy": ("script", pre2), "kill_at": None}], str(root / f"q{k}"), "two-preemptions"))
    return [base], jobs


def stress_uncontrolled(v: Verdict, prop: str, root: Path, rounds: int, modes=("nondaemonic", "future", "threads")):
    """uncontrolled runs through the three ways the repository's example distributes work: forked
    worker processes (NonDaemonicPool, ProcessPoolExecutor) and a thread pool.  Only the final
    files are observed (AggObs with one event)."""
    import subprocess
    import sys
    results = []
    names = [f"s{i}" for i in range(6)] + ["s0", "s3"]           # colliding names included
    for rd in range(rounds):
        for mode in modes:
            d = root / f"stress{rd}{mode}"
            shutil.rmtree(d, ignore_errors=True)
            d.mkdir(parents=True)
            import os
            import signal
            proc = subprocess.Popen([sys.executable, "-m", "harness.aggstress", mode, str(d), ",".join(names)], cwd=str(common.ROOT),
                                    stdout=subprocess.PIPE, stderr=subprocess.PIPE, text=True, start_new_session=True)
            try:
                out, err = proc.communicate(timeout=150)
            except subprocess.TimeoutExpired:
                # the real code did not come back: "no call blocks forever" (a normal run takes seconds)
                try:
                    os.killpg(proc.pid, signal.SIGKILL)
                except ProcessLookupError:
                    pass
                proc.communicate()
                v.violation("NoCallBlocksForever", {"stress_mode": mode}, {"kind": "uncontrolled-stress", "mode": mode, "names": names},
                            what=f"uncontrolled {mode} run of 8 evaluate() calls did not finish within 150 s")
                shutil.rmtree(d, ignore_errors=True)
                continue
            if proc.returncode != 0:
                raise Machinery(f"stress runner failed ({mode}): {err[-800:]}")
            results.append(json.loads(out.strip().splitlines()[-1]))
            shutil.rmtree(d, ignore_errors=True)
    return results


def check_C16(tier: str, v: Verdict):
    rng = random.Random(seed() * 7919 + 16)
    root = common.scratch("C16-runs")
    try:
        run_models(v, [("MC_Aggregator", c) for c in MC16.values()])
        if tier == "thorough":
            # a statistics call under the wrong lock must be caught by the model in the split-write environment
            self_test_models(v, [("MC_Aggregator", "MC_Agg_legacy_statlock.cfg", "SnapOnlyComplete")])
        if tier == "thorough":
            run_models(v, [("MC_Aggregator", "MC_Agg_c16_five.cfg")], timeout=3000)
        results = []
        # (S -> C) behaviours of the model, replayed on real threads
        nb = 12 if tier == "quick" else 150
        jobs = []
        expect = {}
        for sc in [x for x in C16_SCENARIOS if x["name"] in MC16]:
            beh, r = tlc_behaviours(MC16[sc["name"]], nb, 200, seed() + 1)
            v.add_tlc(r)
            for bi, b in enumerate(beh):
                ss = sessions_from_behaviour(b)
                tag = f"tlc-behaviour-{sc['name']}-{bi}"
                expect[tag] = b
                jobs.append((sc, [{"policy": s["policy"], "kill_at": s["kill_at"]} for s in ss], str(root / f"b{len(jobs)}"), tag))
        res_b = run_histories(jobs)
        replayed = 0
        for r_ in res_b:
            want = [(p, op) for p, op in expect[r_["tag"]] if op not in ("crash", "restart")]
            got = [(p, op) for p, op in r_["ops"]]
            if got == want:
                replayed += 1
            else:
                k = next((i for i, (a, b) in enumerate(zip(got, want)) if a != b), min(len(got), len(want)))
                v.notes.append(f"S->C: code left the model's behaviour at step {k}: code {got[k:k+1]} model {want[k:k+1]} ({r_['tag']})")
        v.cov["spec_behaviours_replayed"] = replayed
        v.cov["spec_behaviours_not_followed"] = len(res_b) - replayed
        results += res_b
        # every edge of the complete state graph of a small configuration (three calls with the same name),
        # replayed on real threads; the thorough tier adds the 14.7 k edges of the dup+stat configuration
        results += replay_edge_cover(v, root, rng, 400, which=("triple",))
        if tier == "thorough":
            results += replay_edge_cover(v, root, rng, 2500, which=("dup",))
        # (C -> S) the code's own yield points: bounded preemption + seeded random schedules
        for sc in C16_SCENARIOS:
            base, jobs = preemption_schedules(sc, root / ("dfs-" + sc["name"]), 10 if tier == "quick" else 120, rng)
            results += base + run_histories(jobs)
        results += run_histories(jobs_random(C16_SCENARIOS, 8 if tier == "quick" else 150, seed() + 16, root))
        validate_histories(v, results, "C16")
        if tier == "thorough":
            binding_self_test(v, next(r for r in results if not r["deadlock"] and not r["hang"] and r["nevents"] > 30 and r["scn"].get("workers") != "processes"), "C16")
        if tier == "thorough":
            single_worker_kill_hazard(v, root)
        # uncontrolled: forked workers and thread pool
        st = stress_uncontrolled(v, "C16", root, 1 if tier == "quick" else 6)
        validate_obs_only(v, st, "C16")
        v.cov["evaluations"] = len(results) + len(st)
        v.cov["distinct_nontrivial"] = len({json.dumps([r["scn"]["name"], r["schedule"]]) for r in results
                                           if _switches_in_critical(r) >= 1})
        v.cov["rule"] = ("histories = scenario (2-4 concurrent evaluate/make_statistic calls, distinct and colliding names, a subject named "
                         "like the header cell) x schedule over the lock/file operations (TLC behaviours, bounded-preemption exploration of the "
                         "code's own yield points, seeded random) on real threads, + uncontrolled forked-process/thread-pool stress; distinct by "
                         "(scenario, schedule); non-trivial = at least one context switch while a thread is inside a critical region")
        v.cov["samples"] = [{"scenario": r["scn"]["name"], "schedule": r["schedule"][:60], "tag": r["tag"]} for r in results[:: max(1, len(results) // 4)][:4]]
        v.assumptions += ["TLC, CommunityModules", "a row is written by one write(2) at close (rows << 8 KiB), local file system, fork start method",
                          "wrappers installed from outside in the namespaces of panoptica_aggregator / panoptica_statistics (locks, open, os.remove, "
                          "Path.exists, atexit.register, evaluator)", "controlled runs use threads inside a forked session process; forked worker "
                          "processes are covered by uncontrolled stress runs judged on the final files"]
    finally:
        shutil.rmtree(root, ignore_errors=True)


def _switches_in_critical(r):
    held = None
    n = 0
    prev = None
    for p, op in r["ops"]:
        if prev is not None and p != prev and held is not None and held != p:
            n += 1
        if op.startswith("acq_"):
            held = p
        elif op.startswith("rel_") and held == p:
            held = None
        prev = p
    return n


def validate_obs_only(v: Verdict, stress_results, prop):
    if not stress_results:
        return
    sdir = common.scratch(prop + "-stress")
    try:
        cfg = sdir / "obs.cfg"
        cfg.write_text("SPECIFICATION Spec\n" + "".join(f"INVARIANT {i}\n" for i in OBS_INVS) + "CHECK_DEADLOCK FALSE\n")
        tf = sdir / "obs.ndjson"
        write_ndjson(tf, [r["obs"] for r in stress_results])
        r = run_tlc("AggObs", str(cfg), env={"TRACE_FILE": str(tf)}, cont=True)
        v.add_tlc(r)
        if r.errors:
            raise Machinery(f"TLC error in AggObs (stress): {r.errors[0][:1200]}")
        bad = set()
        for viol in r.violations:
            tid = int(viol["vars"]["tid"])
            if tid in bad:
                continue
            bad.add(tid)
            res = stress_results[tid - 1]
            v.violation(viol["inv"], {"scenario": "stress-" + res["mode"], "init": "absent", "aggs": 1, "same_dir": True, "killed": False,
                                      "sessions": 1, "subject_named_like_header": False},
                        {"kind": "aggregator-stress", "mode": res["mode"], "names": res["names"], "final": res["obs"]["ev"][-1]["files"]},
                        what=f"uncontrolled {res['mode']} run")
        v.cov["traces_validated_against_impl"] += len(stress_results) - len(bad)
        v.cov["stress_runs"] = v.cov.get("stress_runs", 0) + len(stress_results)
    finally:
        shutil.rmtree(sdir, ignore_errors=True)


# --------------------------------------------------------------------------------------
# C17
# --------------------------------------------------------------------------------------
C17_SCENARIOS = [
    scn("two-absent", ["A"], [E("A", "a"), E("A", "b")], init="absent"),
    scn("two-empty", ["A"], [E("A", "a"), E("A", "b")], init="empty"),
    scn("two-header", ["A"], [E("A", "a"), E("A", "b")], init="header"),
    scn("two-rows", ["A"], [E("A", "a"), E("A", "b")], init="rows", prior=["a"]),
    scn("three-noexit", ["A"], [E("A", "a"), E("A", "b"), E("A", "c")], init="absent", normal_exit=False),
    # the calls of a session run in forked worker processes; the kill takes the whole process group
    scn("two-header-processes", ["A"], [E("A", "a"), E("A", "b"), E("A", "a")], init="header", workers="processes"),
    # names that are prefixes / suffixes / substrings of a finished or claimed one
    scn("affix-rows", ["A"], [E("A", "s1"), E("A", "0"), E("A", "s10")], init="rows", prior=["s10"]),
    scn("affix-absent", ["A"], [E("A", "case21"), E("A", "case2"), E("A", "21")], init="absent"),
]
# beyond the listed properties: an output file with another configuration's header must be refused untouched
FOREIGN_SCENARIO = scn("foreign-header", ["A"], [E("A", "a"), E("A", "b")], init="foreign", prior=["q"])
SIBLING_SCENARIOS = [
    scn("siblings-same-dir", ["A", "B"], [E("A", "a"), E("B", "a"), E("A", "b")], same_dir=True),
    scn("siblings-other-dir", ["A", "B"], [E("A", "a"), E("B", "a"), E("B", "b")], same_dir=False),
    scn("siblings-same-dir-rows", ["A", "B"], [E("A", "a"), E("B", "a")], init="rows", prior=["z"], same_dir=True),
    # output file names that differ only in characters of the extension / in a suffix
    scn("siblings-names-t-v", ["A", "B"], [E("A", "a"), E("B", "a"), E("A", "b")], out_names={"A": "scores_t.tsv", "B": "scores_v.tsv"}),
    scn("siblings-names-plural", ["A", "B"], [E("A", "a"), E("B", "a"), E("B", "b")], out_names={"A": "unet.tsv", "B": "unets.tsv"}),
    scn("siblings-names-prefix", ["A", "B"], [E("A", "a"), E("B", "a")], out_names={"A": "run.tsv", "B": "run_panoptica_aggregator_tmp.tsv"}),
    scn("siblings-names-dots", ["A", "B"], [E("A", "a"), E("B", "a")], out_names={"A": "res.v1.tsv", "B": "res.v2.tsv"}),
]
MC17 = ["MC_Agg_c17_foreign.cfg", "MC_Agg_c17_stat.cfg", "MC_Agg_c17_absent.cfg", "MC_Agg_c17_empty.cfg", "MC_Agg_c17_header.cfg", "MC_Agg_c17_rows.cfg", "MC_Agg_c17_three.cfg",
        "MC_Agg_c17_sibling.cfg"]


def check_C17(tier: str, v: Verdict):
    rng = random.Random(seed() * 7919 + 17)
    root = common.scratch("C17-runs")
    try:
        run_models(v, [("MC_Aggregator", c) for c in MC17])
        if tier == "thorough":
            self_test_models(v, [("MC_Aggregator", "MC_Agg_legacy_header.cfg", "HeaderFirstOnce"),
                                 ("MC_Aggregator", "MC_Agg_legacy_buffer.cfg", "ExactlyOnePerSubject")])
        results = []
        jobs = []
        # kill before every operation of a sequential session (and of some random-schedule sessions),
        # then a fresh session that resubmits everything
        for sc in C17_SCENARIOS + SIBLING_SCENARIOS[:1]:
            base = _run_history((sc, [{"policy": ("seq",), "kill_at": None}], str(root / "probe"), "uninterrupted"))
            if base.get("job_timeout"):
                if not base.get("skipped"):
                    JOB_TIMEOUTS.append(base)
                    ABANDON[0] = True
                continue
            results.append(base)
            n = base["nevents"]
            points = list(range(0, n + 1))
            if tier == "quick":
                points = points[:: 2] if len(points) > 30 else points
            for k in points:
                second = rng.choice([("seq",), ("random", seed() * 31 + k, 0.5)])
                jobs.append((sc, [{"policy": ("seq",), "kill_at": k}, {"policy": second, "kill_at": None}], str(root / f"k{len(jobs)}"), f"kill-at-{k}"))
            for j in range(4 if tier == "quick" else 40):
                sd = seed() * 977 + j
                k1 = rng.randint(0, n)
                sess = [{"policy": ("random", sd, 0.5), "kill_at": k1}]
                if rng.random() < 0.4:
                    sess.append({"policy": ("random", sd + 1, 0.5), "kill_at": rng.randint(0, n)})
                sess.append({"policy": ("random", sd + 2, 0.5), "kill_at": None})
                jobs.append((sc, sess, str(root / f"r{len(jobs)}"), "random-kill"))
        # neighbouring aggregators: histories of complete sessions
        for sc in SIBLING_SCENARIOS:
            for j in range(3 if tier == "quick" else 30):
                sd = seed() * 613 + j
                jobs.append((sc, [{"policy": ("random", sd, 0.6), "kill_at": None}, {"policy": ("random", sd + 1, 0.6), "kill_at": None}],
                             str(root / f"s{len(jobs)}"), "siblings"))
        # (S -> C) model behaviours containing Crash, replayed with a real SIGKILL at that operation
        nb = 6 if tier == "quick" else 80
        for cfg, sc in (("MC_Agg_c17_absent.cfg", C17_SCENARIOS[0]), ("MC_Agg_c17_rows.cfg", C17_SCENARIOS[3])):
            beh, r = tlc_behaviours(cfg, nb, 300, seed() + 2)
            v.add_tlc(r)
            for bi, b in enumerate(beh):
                ss = sessions_from_behaviour(b)
                jobs.append((sc, [{"policy": s["policy"], "kill_at": s["kill_at"]} for s in ss], str(root / f"b{len(jobs)}"),
                             f"tlc-crash-behaviour-{bi}"))
        # every edge (kill edges included) of the complete state graph of the two-subject configuration with one
        # kill: replayed with real SIGKILLs
        results += replay_edge_cover(v, root, rng, 400, which=("two-absent",))
        jobs.append((FOREIGN_SCENARIO, [{"policy": ("seq",), "kill_at": None}, {"policy": ("seq",), "kill_at": None}], str(root / "foreign"), "foreign-header"))
        results += run_histories(jobs)
        validate_histories(v, results, "C17")
        # one process that creates an aggregator on the same output file again and again (the earlier object
        # dropped and garbage-collected, or kept alive) and resubmits the subjects; judged on the final file
        st = stress_uncontrolled(v, "C17", root, 1 if tier == "quick" else 3, modes=("reopen", "reopen-keep"))
        validate_obs_only(v, st, "C17")
        v.cov["in_process_reopen_runs"] = len(st)
        v.cov["evaluations"] = len(results)
        v.cov["kill_points"] = len([r for r in results if r["tag"].startswith("kill-at")])
        v.cov["distinct_nontrivial"] = len({json.dumps([r["scn"]["name"], [(s["policy"], s.get("kill_at")) for s in r["sessions"]]]) for r in results
                                           if any(s.get("kill_at") is not None for s in r["sessions"]) or len(r["scn"]["aggs"]) > 1})
        v.cov["rule"] = ("histories = scenario (initial output file absent / empty / header only / header + rows; 2-3 subjects; one or two "
                         "aggregators in the same or in different directories) x sessions; a real SIGKILL of the session's process group before "
                         "every lock/file operation of constructor, evaluate and exit handler, then a fresh session resubmitting everything; "
                         "distinct by (scenario, schedules, kill points); non-trivial = a kill happened or two aggregators are involved")
        v.cov["samples"] = [{"scenario": r["scn"]["name"], "tag": r["tag"], "sessions": r["sessions"][:2]} for r in results[:: max(1, len(results) // 4)][:4]]
        v.assumptions += ["TLC, CommunityModules", "a killed session is followed by a session with fresh lock objects (what a new interpreter creates)",
                          "SIGKILL loses user-space buffers and runs no exit handler; rows reach the file in one write at close"]
    finally:
        shutil.rmtree(root, ignore_errors=True)


REGISTRY = {"C16": check_C16, "C17": check_C17}


# --------------------------------------------------------------------------------------
# edge cover of the model's state graph (S -> C, thorough tier)
# --------------------------------------------------------------------------------------
_NODE = re.compile(r'^(-?\d+) \[label="((?:[^"\\]|\\.)*)"', re.M)
_EDGE = re.compile(r'^(-?\d+) -> (-?\d+) \[label="([^"]*)"', re.M)
_LOP = re.compile(r'lastop = \[p \|-> (-?\d+), op \|-> \\"(\w+)\\"\]')


def graph_edge_cover(cfg: str, max_paths: int, rng):
    """dump the complete state graph of a small Aggregator configuration (without the VIEW, so that every
    state remembers the operation that led to it) and compute paths from the initial state that together
    cover every edge; each path is a schedule for the controller."""
    sdir = common.scratch("graph")
    try:
        dot = sdir / "g.dot"
        r = run_tlc("MC_Aggregator", cfg, cont=False, workers=4, extra=["-dump", "dot,actionlabels", str(dot)], timeout=900)
        if r.errors or not dot.exists():
            raise Machinery(f"could not dump the state graph of {cfg}: {r.errors[:1]}")
        text = dot.read_text()
        lop = {}
        first = None
        for m in _NODE.finditer(text):
            mm = _LOP.search(m.group(2))
            if mm:
                lop[m.group(1)] = (int(mm.group(1)), mm.group(2))
                if first is None:
                    first = m.group(1)
        out_edges = {}
        edges = set()
        for m in _EDGE.finditer(text):
            a, b = m.group(1), m.group(2)
            if a == b:
                continue
            out_edges.setdefault(a, []).append(b)
            edges.add((a, b))
        covered = set()
        paths = []
        # distance to the nearest uncovered edge is recomputed lazily by BFS
        def next_hop(node):
            seen = {node}
            frontier = [(node, None)]
            while frontier:
                nxt = []
                for n, firsthop in frontier:
                    for d in out_edges.get(n, []):
                        fh = firsthop or d
                        if (n, d) not in covered:
                            return fh
                        if d not in seen:
                            seen.add(d)
                            nxt.append((d, fh))
                frontier = nxt
            return None
        while len(covered) < len(edges) and len(paths) < max_paths:
            node, path = first, []
            while True:
                outs = out_edges.get(node, [])
                fresh = [d for d in outs if (node, d) not in covered]
                d = rng.choice(fresh) if fresh else next_hop(node)
                if d is None:
                    # nothing uncovered reachable: finish the behaviour along any edge so that the session ends
                    d = outs[0] if outs else None
                    if d is None:
                        break
                covered.add((node, d))
                path.append(lop[d])
                node = d
                if len(path) > 400:
                    break
            paths.append(path)
        return paths, len(edges), len(covered), r
    finally:
        shutil.rmtree(sdir, ignore_errors=True)


def replay_edge_cover(v: Verdict, root: Path, rng, max_paths: int, which=("triple", "dup")):
    results = []
    for cfg, sc in (("MC_Agg_c16_triple_graph.cfg", C16_SCENARIOS[1]), ("MC_Agg_c16_dup_graph.cfg", C16_SCENARIOS[0]),
                    ("MC_Agg_c17_absent_graph.cfg", C17_SCENARIOS[0])):
        if sc["name"].split("+")[0] not in which:
            continue
        paths, n_edges, n_cov, r = graph_edge_cover(cfg, max_paths, rng)
        v.add_tlc(r)
        jobs, expect = [], {}
        for i, p in enumerate(paths):
            tag = f"edge-cover-{sc['name']}-{i}"
            expect[tag] = p
            ss = sessions_from_behaviour(p)        # a path with Crash / Restart steps is a history of several sessions
            jobs.append((sc, [{"policy": s["policy"], "kill_at": s["kill_at"]} for s in ss], str(root / f"ec{sc['name']}{i}"), tag))
        res = run_histories(jobs)
        followed = 0
        for r_ in res:
            got = [(p, op) for p, op in r_["ops"]]
            want = list(expect[r_["tag"]])
            if got == want:
                followed += 1
            else:
                k = next((i for i, (a, b) in enumerate(zip(got, want)) if a != b), min(len(got), len(want)))
                v.notes.append(f"edge cover: code left the model's path at step {k}: code {got[k:k+1]} model {want[k:k+1]} ({r_['tag']})")
        v.cov.setdefault("edge_cover", {})[sc["name"]] = {"graph_edges": n_edges, "edges_on_paths": n_cov, "paths": len(paths), "paths_followed_exactly": followed}
        results += res
    return results
