"""Input generators: exhaustive small universes and seeded random label maps built from boxes
and blobs that touch, overlap, split, merge, sit on the array border or meet diagonally."""
from __future__ import annotations

import itertools
import random

import numpy as np

SHAPES_1D = [(4,), (5,), (6,), (7,)]
SHAPES_2D = [(3, 3), (3, 4), (4, 4), (4, 5), (5, 5), (6, 6)]
# 3-D shapes include arrays with an axis of length 1 (a single slice is still a 3-D input: cc3d, 26-connectivity)
SHAPES_3D = [(2, 2, 2), (2, 3, 3), (3, 3, 3), (3, 4, 4), (4, 4, 4), (1, 4, 4), (4, 1, 4), (3, 5, 1), (1, 1, 6)]
ALL_SHAPES = SHAPES_1D + SHAPES_2D + SHAPES_3D


def all_arrays(shape, k, dtype=np.uint8):
    n = int(np.prod(shape))
    for t in itertools.product(range(k + 1), repeat=n):
        yield np.array(t, dtype=dtype).reshape(shape)


def pick_shape(rng: random.Random, max_vox: int = 64, dims=(1, 2, 3)):
    cands = [s for s in ALL_SHAPES if len(s) in dims and int(np.prod(s)) <= max_vox]
    return rng.choice(cands)


def _box(rng, shape, maxlen=3):
    sl = []
    for n in shape:
        ln = rng.randint(1, min(maxlen, n))
        st = rng.randint(0, n - ln)
        sl.append(slice(st, st + ln))
    return tuple(sl)


def _blob(rng, shape, size):
    """random-walk blob (face or diagonal steps), may be one voxel thick"""
    pos = [rng.randrange(n) for n in shape]
    out = {tuple(pos)}
    for _ in range(size * 3):
        if len(out) >= size:
            break
        ax = rng.randrange(len(shape))
        step = rng.choice((-1, 1))
        if rng.random() < 0.25 and len(shape) > 1:   # diagonal step
            ax2 = (ax + 1) % len(shape)
            pos[ax2] = min(max(pos[ax2] + rng.choice((-1, 1)), 0), shape[ax2] - 1)
        pos[ax] = min(max(pos[ax] + step, 0), shape[ax] - 1)
        out.add(tuple(pos))
    return out


def rand_instances(rng: random.Random, shape, n_inst: int):
    a = np.zeros(shape, dtype=np.int64)
    for lab in range(1, n_inst + 1):
        if rng.random() < 0.5:
            a[_box(rng, shape)] = lab
        else:
            for p in _blob(rng, shape, rng.randint(1, 5)):
                a[p] = lab
    return a


def derive_prediction(rng: random.Random, ref: np.ndarray):
    """a prediction related to the reference: shifted, split, merged, eroded, dropped, extra."""
    shape = ref.shape
    pred = np.zeros(shape, dtype=np.int64)
    nxt = 1
    labs = [int(x) for x in np.unique(ref) if x != 0]
    rng.shuffle(labs)
    for lab in labs:
        mask = ref == lab
        mode = rng.random()
        if mode < 0.15:
            continue                                   # missed
        if mode < 0.45:                                # shifted by one voxel
            ax = rng.randrange(len(shape))
            mask = np.roll(mask, rng.choice((-1, 1)), axis=ax)
        elif mode < 0.65:                              # split into two predictions
            idx = np.argwhere(mask)
            if len(idx) >= 2:
                ax = rng.randrange(len(shape))
                cut = int(np.median(idx[:, ax]))
                part = mask & (np.indices(shape)[ax] <= cut)
                rest = mask & ~part
                if part.any() and rest.any():
                    pred[part & (pred == 0)] = nxt
                    nxt += 1
                    mask = rest
        elif mode < 0.75:                              # eroded / partially covered
            idx = np.argwhere(mask)
            if len(idx) >= 2:
                drop = idx[rng.randrange(len(idx))]
                mask = mask.copy()
                mask[tuple(drop)] = False
        elif mode < 0.85 and nxt > 1:                  # merged into the previous prediction
            pred[mask & (pred == 0)] = nxt - 1
            continue
        pred[mask & (pred == 0)] = nxt
        nxt += 1
    for _ in range(rng.choice((0, 0, 1, 2))):           # spurious predictions
        b = _box(rng, shape, 2)
        sub = pred[b]
        sub[sub == 0] = nxt
        pred[b] = sub
        nxt += 1
    return pred


def rand_unmatched_pair(rng: random.Random, max_vox: int = 64, dims=(1, 2, 3), max_inst: int = 4):
    shape = pick_shape(rng, max_vox, dims)
    mode = rng.random()
    if mode < 0.06:
        ref = np.zeros(shape, dtype=np.int64)
    else:
        ref = rand_instances(rng, shape, rng.randint(1, max_inst))
    if mode > 0.94:
        pred = np.zeros(shape, dtype=np.int64)
    elif rng.random() < 0.7:
        pred = derive_prediction(rng, ref)
    else:
        pred = rand_instances(rng, shape, rng.randint(1, max_inst))
    return pred, ref


def rand_semantic(rng: random.Random, shape, n_labels: int = 2, density: float = 0.5):
    a = np.zeros(shape, dtype=np.int64)
    it = np.nditer(a, flags=["multi_index"])
    for _ in it:
        if rng.random() < density:
            a[it.multi_index] = rng.randint(1, n_labels)
    return a


def relabel_random(rng: random.Random, a: np.ndarray, lo: int = 1, hi: int = 40):
    """injective random renaming of the non-zero labels into [lo, hi]"""
    labs = [int(x) for x in np.unique(a) if x != 0]
    new = rng.sample(range(lo, hi + 1), len(labs))
    out = np.zeros_like(a)
    for l, n in zip(labs, new):
        out[a == l] = n
    return out


THRESHOLDS = [(0, 1), (1, 4), (1, 3), (1, 2), (2, 3), (1, 1)]
ASSD_THRESHOLDS = [(0, 1), (1, 2), (1, 1), (2, 1), (5, 1)]


def far_block_pair(rng: random.Random, joint: bool, max_vox: int = 20):
    """A random pair plus one *isolated* overlapping instance pair: a block of full slabs that is
    more than the crop padding (2 voxels) away from every other foreground voxel.  Returns
    (pred, ref, p_new, r_new): the block carries label p_new in pred and r_new in ref (equal when
    `joint`).  Used with label values whose sum wraps around in the array dtype."""
    pred, ref = rand_unmatched_pair(rng, max_vox=max_vox, dims=(1, 2, 3))
    shape = pred.shape
    gap, blk = rng.randint(3, 4), rng.randint(1, 2)
    if joint:
        p_new = r_new = int(max(pred.max(), ref.max())) + 1
    else:
        p_new, r_new = int(pred.max()) + 1, int(ref.max()) + 1
    bp = np.zeros((gap + blk,) + shape[1:], dtype=np.int64)
    br = bp.copy()
    bp[gap:] = p_new
    br[gap:] = r_new
    if rng.random() < 0.25 and bp[gap:].size > 1:
        flat = bp[gap:].reshape(-1)
        flat[rng.randrange(flat.size)] = 0         # a partial overlap: one reference-only voxel
    if rng.random() < 0.5:
        return np.concatenate([pred, bp]), np.concatenate([ref, br]), p_new, r_new
    return np.concatenate([bp[::-1], pred]), np.concatenate([br[::-1], ref]), p_new, r_new


# (i1, a1, i2, b1, p0): one prediction P overlapping two references A and B (a 1-D line
# [A only a1][A and P i1][P only p0][B and P i2][B only b1]) whose IoU scores differ by less than
# 4e-4 and agree to three decimals, both >= 1/4 - a near tie that best-first matching must still decide
NEAR_TIES = [(20, 0, 23, 7, 4), (23, 7, 20, 0, 4), (20, 1, 23, 8, 3), (19, 3, 21, 8, 5), (21, 8, 19, 3, 5), (23, 9, 20, 2, 2)]


def near_tie_pair(rng: random.Random):
    i1, a1, i2, b1, p0 = rng.choice(NEAR_TIES)
    n = a1 + i1 + p0 + i2 + b1
    lead, tail = rng.randint(0, 2), rng.randint(0, 2)
    ref = np.zeros(lead + n + tail, dtype=np.int64)
    pred = np.zeros_like(ref)
    ref[lead:lead + a1 + i1] = 1
    ref[lead + a1 + i1 + p0:lead + n] = 2
    pred[lead + a1:lead + a1 + i1 + p0 + i2] = 1
    if rng.random() < 0.5:
        # as a two-row strip (the second row empty), so that axis permutations apply as well
        ref, pred = np.stack([ref, np.zeros_like(ref)]), np.stack([pred, np.zeros_like(pred)])
    if rng.random() < 0.5:
        pred, ref = ref, pred                 # one reference spanning two predictions
    return pred, ref
