"""Checks C15 (purity / history independence of evaluation) and C19 (configuration round trip)."""
from __future__ import annotations

import hashlib
import itertools
import json
import random
import re
import shutil
import struct
import traceback
from pathlib import Path

import numpy as np

from . import common, drive, gen
from .common import Machinery, Verdict, run_tlc, seed, write_ndjson
from .drive import quiet
from .engine import run_models, self_test_models
from .rec_pipeline import DEFAULT_H, default_cfg, make_evaluator
from .checks_pipeline import DISTINCT_H
from .tlaparse import parse

C15_CLAUSES = ["T_NoRaise", "T_InputsUntouched", "T_Deterministic", "T_KeysStable", "T_SavedStable", "T_ArgsUntouched", "T_ModelKeys"]

ATTRS = ["num_ref_instances", "num_pred_instances", "tp", "fp", "fn", "prec", "rec", "rq", "sq", "sq_std", "pq", "sq_dsc", "sq_dsc_std",
         "pq_dsc", "sq_assd", "sq_assd_std", "sq_rvd", "sq_rvd_std", "global_bin_dsc", "global_bin_iou", "global_bin_assd", "global_bin_rvd"]


def _cfgs():
    from panoptica.utils import SegmentationClassGroups, LabelGroup
    from panoptica.utils.label_group import LabelMergeGroup
    return {
        "c1": (default_cfg(input="UNM", gm=["DSC"]), None),
        "c2": (default_cfg(input="MAT", dm="IOU", dthr=[1, 2], im=["DSC", "IOU", "RVD"], gm=["DSC", "IOU"], h=DISTINCT_H), None),
        # a single-instance group first, then a plain group evaluated with a decision threshold:
        # per-group overrides must not leak into later groups or later calls
        "c3": (default_cfg(input="SEM", matcher="naive", mm="IOU", thr=[1, 4], dm="IOU", dthr=[2, 3], im=["DSC", "IOU", "RVD"], gm=["DSC", "RVD"]),
               lambda: SegmentationClassGroups({"one": LabelGroup([1], single_instance=True), "rest": LabelGroup([2, 3])})),
        # a merge group that covers EVERY non-zero label of the inputs (nothing to remove before it is
        # binarised), then a sub-group: the caller's arrays and the later group must not see the binarisation
        "c4": (default_cfg(input="SEM", im=["DSC", "IOU"], gm=["DSC"]),
               lambda: SegmentationClassGroups({"whole": LabelMergeGroup([1, 2, 3]), "core": LabelGroup([2, 3])})),
        # a rejected configuration: the decision metric is not among the instance metrics (the constructor
        # accepts it, every use is refused); c1 and c5 have the constructor's default metric lists
        "c5": (default_cfg(input="UNM", gm=["DSC"], dm="clDSC", dthr=[1, 2]), None),
    }


def _shared_lists(cfg, shared):
    from .rec_pipeline import METRIC
    key = json.dumps([cfg["im"], cfg["gm"], cfg["dm"]])
    if key not in shared:
        shared[key] = ([METRIC[m] for m in cfg["im"]], [METRIC[m] for m in cfg["gm"]])
    return shared[key]


def _make(cfg, groups, sgt, src, shared):
    """build an evaluator; the metric-list arguments are fresh lists, the caller's one shared pair of
    lists for this configuration, or omitted (the constructor's default-argument objects)"""
    from panoptica import Panoptica_Evaluator
    from .rec_pipeline import BACKEND, INPUT, METRIC, make_handler, make_matcher
    from panoptica import ConnectedComponentsInstanceApproximator
    kw = {}
    if src == "shared":
        lists = _shared_lists(cfg, shared)
        kw = {"instance_metrics": lists[0], "global_metrics": lists[1]}
    elif src != "default":
        kw = {"instance_metrics": [METRIC[m] for m in cfg["im"]], "global_metrics": [METRIC[m] for m in cfg["gm"]]}
    return Panoptica_Evaluator(
        expected_input=INPUT[cfg["input"]],
        instance_approximator=ConnectedComponentsInstanceApproximator(cca_backend=BACKEND[cfg["backend"]]),
        instance_matcher=make_matcher(cfg["matcher"], cfg["mm"], cfg["thr"]),
        edge_case_handler=make_handler(cfg["h"]),
        segmentation_class_groups=groups,
        decision_metric=None if cfg["dm"] == "NONE" else METRIC[cfg["dm"]],
        decision_threshold=None if cfg["dm"] == "NONE" else cfg["dthr"][0] / cfg["dthr"][1],
        save_group_times=sgt, **kw)


def _arg_objects(shared):
    """content of the caller's shared argument lists and of the constructor's default arguments"""
    import inspect
    from panoptica import Panoptica_Evaluator
    out = []
    for key in sorted(shared):
        for nm, lst in zip(("im", "gm"), shared[key]):
            out.append({"n": f"shared:{key}:{nm}", "d": ",".join(m.name for m in lst)})
    for pname, par in inspect.signature(Panoptica_Evaluator.__init__).parameters.items():
        if isinstance(par.default, (list, dict, set)):
            d = par.default
            out.append({"n": f"default:{pname}", "d": ",".join(getattr(x, "name", repr(x)) for x in d)})
    return out


def _inputs():
    rng = random.Random(1515)
    out = {}
    for k, shape in (("i1", (6, 6)), ("i2", (4, 4, 4)), ("i3", (9,))):
        pred, ref = gen.rand_unmatched_pair(rng, max_vox=1, dims=(1,)) if False else (None, None)
        ref = (gen.rand_instances(rng, shape, 3) % 4).astype(np.uint8)
        pred = (gen.derive_prediction(rng, ref) % 4).astype(np.uint8)
        out[k] = (pred, ref)
    # i2: an EMPTY prediction (metrics that are undefined there are missing from the result: what an
    # evaluator reports for such an input must not shape what it advertises or reports later)
    out["i2"] = (np.zeros_like(out["i2"][0]), out["i2"][1])
    return out


def _val(x):
    if x is None:
        return "none"
    try:
        return struct.pack(">d", float(x)).hex()
    except (TypeError, ValueError):
        return repr(x)


def _digest_result(res_dict) -> str:
    parts = []
    for g in sorted(res_dict):
        r = res_dict[g][0]
        for a in ATTRS:
            try:
                parts.append(f"{g}.{a}={_val(getattr(r, a))}")
            except Exception:  # noqa: BLE001  uncomputable metric
                parts.append(f"{g}.{a}=absent")
    return hashlib.sha1("|".join(parts).encode()).hexdigest()[:16]


def _digest_arr(*arrs) -> str:
    h = hashlib.sha1()
    for a in arrs:
        h.update(np.ascontiguousarray(a).tobytes())
        h.update(str(a.dtype).encode() + str(a.shape).encode())
    return h.hexdigest()[:12]


_NOMINAL: dict = {}


def nominal_keys():
    """what a fresh evaluator of each configuration advertises when asked first thing (once per process)"""
    if not _NOMINAL:
        with quiet():
            for c, (cfg, groups) in _cfgs().items():
                try:
                    _NOMINAL[c] = list(_make(cfg, groups() if groups else None, False, "fresh", {}).resulting_metric_keys)
                except Exception:  # noqa: BLE001   (a rejected configuration has no keys)
                    pass
    return [{"c": c, "k": k} for c, k in sorted(_NOMINAL.items())]


def run_history(actions, workdir: Path) -> dict:
    """execute a history of API calls on real objects and record the observations"""
    from panoptica import Panoptica_Aggregator
    cfgs, inputs = _cfgs(), _inputs()
    nominal = nominal_keys()
    shutil.rmtree(workdir, ignore_errors=True)
    workdir.mkdir(parents=True)
    evs, evcfg, has_keys = [], [], []
    events = []
    nagg = 0
    shared: dict = {}
    for a in actions:
        a.setdefault("src", "fresh" if a["act"] == "new_evaluator" else "-")
        ev_rec = dict(a)
        ev_rec.update({"out": "ok", "res": "-", "inb": "-", "ina": "-", "keys": [], "saved": [], "args": []})
        if a["act"] == "new_evaluator" and a["src"] == "shared":
            _shared_lists(cfgs[a["c"]][0], shared)      # the caller's lists exist before the call
        ev_rec["argsb"] = _arg_objects(shared)
        try:
            with quiet(), drive.time_limit(180):
                if a["act"] == "new_evaluator":
                    cfg, groups = cfgs[a["c"]]
                    evs.append(_make(cfg, groups() if groups else None, a["sgt"], a["src"], shared))
                    evcfg.append(a["c"])
                    has_keys.append(False)
                elif a["act"] == "evaluate":
                    pred, ref = inputs[a["inp"]]
                    p, r = pred.copy(), ref.copy()
                    ev_rec["inb"] = _digest_arr(p, r)
                    if a["pool"] == "real":
                        drive.use_real_pool()
                    else:
                        drive.use_serial_pool()
                    try:
                        res = evs[a["e"] - 1].evaluate(p, r, result_all=a["ra"], save_group_times=True if a["sgt"] else None,
                                                       log_times=a["log"], verbose=a["vb"])
                        ev_rec["res"] = _digest_result(res)
                    finally:
                        drive.use_serial_pool()
                        ev_rec["ina"] = _digest_arr(p, r)
                elif a["act"] == "query_keys":
                    _ = list(evs[a["e"] - 1].resulting_metric_keys)
                    has_keys[a["e"] - 1] = True
                elif a["act"] == "new_aggregator":
                    nagg += 1
                    Panoptica_Aggregator(evs[a["e"] - 1], str(workdir / f"agg{nagg}.tsv"), log_times=a["log"])
                    has_keys[a["e"] - 1] = True
                elif a["act"] == "save":
                    evs[a["e"] - 1].save_to_config(str(workdir / "s.yaml"))
        except Exception as e:  # noqa: BLE001
            ev_rec["out"] = "raise"
            ev_rec["exception"] = f"{type(e).__name__}: {e}"[:200]
            ev_rec["tb"] = traceback.format_exc()[-500:]
        # observations after the call
        try:
            with quiet():
                for i, evl in enumerate(evs):
                    if has_keys[i]:
                        ev_rec["keys"].append({"e": i + 1, "c": evcfg[i], "k": list(evl.resulting_metric_keys)})
                    evl.save_to_config(str(workdir / "o.yaml"))
                    ev_rec["saved"].append({"e": i + 1, "d": hashlib.sha1((workdir / "o.yaml").read_bytes()).hexdigest()[:12]})
                ev_rec["args"] = _arg_objects(shared)
        except Exception as e:  # noqa: BLE001
            ev_rec["out"] = "raise"
            ev_rec["exception"] = "observation: " + f"{type(e).__name__}: {e}"[:200]
        events.append(ev_rec)
    shutil.rmtree(workdir, ignore_errors=True)
    return {"ev": events, "nominal": nominal}


def random_history(rng, n):
    acts = []
    nev = 0
    for _ in range(n):
        kinds = ["new_evaluator"] if nev == 0 else (["new_evaluator"] if nev < 3 else []) + ["evaluate"] * 4 + ["query_keys", "new_aggregator", "new_aggregator", "save"]
        k = rng.choice(kinds)
        base = {"act": k, "e": 0, "c": "-", "inp": "-", "sgt": False, "ra": True, "log": False, "vb": False, "pool": "serial", "src": "-"}
        if k == "new_evaluator":
            nev += 1
            c = rng.choice(["c1", "c1", "c2", "c3", "c4", "c5"])
            base.update(e=nev, c=c, sgt=rng.random() < 0.3,
                        src=rng.choice(["fresh", "shared", "shared", "default"] if c in ("c1", "c5") else ["fresh", "shared"]))
        else:
            base.update(e=rng.randint(1, nev))
            if k == "evaluate":
                base.update(inp=rng.choice(["i1", "i2", "i3"]), sgt=rng.random() < 0.3, ra=rng.random() < 0.7, log=rng.random() < 0.3, vb=rng.random() < 0.3,
                            pool="real" if rng.random() < 0.1 else "serial")
            elif k == "new_aggregator":
                base.update(log=rng.random() < 0.6)
        acts.append(base)
    # the configuration id of every non-constructor action is the evaluator's
    cfg_of = {}
    for a in acts:
        if a["act"] == "new_evaluator":
            cfg_of[a["e"]] = a["c"]
        else:
            a["c"] = cfg_of[a["e"]]
    return acts


def _with_final_queries(acts):
    """every history ends by asking each evaluator for its advertised keys (QueryKeys / Refused steps of
    Objects.tla), so that what the history did to them is observed"""
    acts = list(acts)
    cfg_of = {a["e"]: a["c"] for a in acts if a["act"] == "new_evaluator"}
    for e, c in sorted(cfg_of.items()):
        acts.append({"act": "query_keys", "e": e, "c": c, "inp": "-", "sgt": False, "ra": True, "log": False, "vb": False, "pool": "serial", "src": "-"})
    return acts


_LAST = re.compile(r"last = (\[[^\]]*\])", re.S)


def tlc_histories(num, depth, sd):
    sdir = common.scratch("sim-obj")
    try:
        prefix = sdir / "b"
        r = run_tlc("MC_Objects", "MC_Objects_quick.cfg", simulate=f"file={prefix},num={num}", depth=depth, workers=1, cont=False,
                    extra=["-seed", str(sd)], timeout=600)
        out = []
        for f in sorted(sdir.glob("b*")):
            acts = []
            for m in _LAST.findall(f.read_text()):
                d = parse(m)
                if d["act"] == "init":
                    continue
                acts.append({"act": d["act"], "e": d["e"], "c": d["c"], "inp": d["inp"], "sgt": d["sgt"], "ra": d["ra"], "log": d["log"], "vb": d["vb"], "pool": d["pool"],
                             "src": d.get("src", "-")})
            if acts:
                out.append(acts)
        return out, r
    finally:
        shutil.rmtree(sdir, ignore_errors=True)


def check_C15(tier: str, v: Verdict):
    drive.use_serial_pool()
    rng = random.Random(seed() * 7919 + 15)
    run_models(v, [("MC_Objects", "MC_Objects_quick.cfg" if tier == "quick" else "MC_Objects_thorough.cfg"),
                   ("MC_Pipeline", "MC_Pipeline_quick.cfg")])
    if tier == "thorough":
        self_test_models(v, [("MC_Objects", "MC_Objects_legacy_alias.cfg", "KeysAreBase"), ("MC_Objects", "MC_Objects_legacy_times.cfg", "NoCallRaises"),
                             ("MC_Objects", "MC_Objects_legacy_args.cfg", "ArgsAreNominal")])
    root = common.scratch("C15-runs")
    try:
        hs, r = tlc_histories(40 if tier == "quick" else 600, 7, seed() + 5)
        v.add_tlc(r)
        traces = []
        for i, acts in enumerate(hs):
            acts = _with_final_queries(acts)
            t = run_history(acts, root / f"s{i}")
            t["tag"] = "tlc-behaviour"
            traces.append(t)
        v.cov["spec_behaviours_replayed"] = len(traces)
        for i in range(60 if tier == "quick" else 800):
            t = run_history(_with_final_queries(random_history(rng, rng.randint(4, 12))), root / f"r{i}")
            t["tag"] = "random-history"
            traces.append(t)
    finally:
        shutil.rmtree(root, ignore_errors=True)
    sdir = common.scratch("C15")
    try:
        cfg = sdir / "t.cfg"
        cfg.write_text("SPECIFICATION Spec\n" + "".join(f"INVARIANT {i}\n" for i in C15_CLAUSES))
        tf = sdir / "t.ndjson"
        write_ndjson(tf, [{"ev": [{k: x for k, x in e.items() if k not in ("exception", "tb")} for e in t["ev"]], "nominal": t["nominal"]} for t in traces])
        r = run_tlc("Trace_Objects", str(cfg), env={"TRACE_FILE": str(tf)}, cont=True)
        v.add_tlc(r)
        if r.errors:
            raise Machinery(f"TLC error in Trace_Objects: {r.errors[0][:1500]}")
        bad = set()
        for viol in r.violations:
            tid, l = int(viol["vars"]["tid"]), int(viol["vars"]["l"])
            if tid in bad:
                continue
            bad.add(tid)
            t = traces[tid - 1]
            e = t["ev"][l - 1]
            site = {"act": e["act"], "opt_sgt": e["sgt"], "opt_log": e["log"], "opt_verbose": e["vb"], "opt_result_all": e["ra"], "pool": e["pool"],
                    "out": e["out"], "exc": e.get("exception", "").split(":")[0],
                    "after_aggregator_with_log_times": any(x["act"] == "new_aggregator" and x["log"] for x in t["ev"][:l])}
            v.violation(viol["inv"], site, {"kind": "object-history", "actions": [{k: x[k] for k in ("act", "e", "c", "inp", "sgt", "ra", "log", "vb", "pool", "src")} for x in t["ev"]],
                                            "failing_step": l, "event": e}, what=f"{t['tag']} step {l}: {e['act']} {e.get('exception', '')[:100]}")
        for d in r.deadlocks:
            tid, l = int(d["vars"]["tid"]), int(d["vars"]["l"])
            if tid not in bad:
                bad.add(tid)
                t = traces[tid - 1]
                v.violation("NotASpecBehaviour", {"act": t["ev"][l]["act"] if l < len(t["ev"]) else ""},
                            {"kind": "object-history", "actions": t["ev"], "failing_step": l + 1}, what=f"history leaves Objects.tla after {l} events")
        v.cov["traces_validated_against_impl"] += len(traces) - len(bad)
    finally:
        shutil.rmtree(sdir, ignore_errors=True)
    v.cov["evaluations"] = sum(len(t["ev"]) for t in traces)
    v.cov["distinct_nontrivial"] = len({json.dumps([[e[k] for k in ("act", "e", "c", "inp", "sgt", "ra", "log", "vb", "pool", "src")] for e in t["ev"]]) for t in traces
                                       if sum(1 for e in t["ev"] if e["act"] == "evaluate") >= 2})
    v.cov["rule"] = ("histories of API calls (new evaluator with/without save_group_times, evaluate with every combination of result_all / "
                     "save_group_times / log_times, serial or real multiprocessing pool, query of the advertised keys, aggregator construction "
                     "with/without log_times, save) on up to 3 shared evaluators of 3 configurations and 3 inputs: TLC-simulated behaviours of "
                     "Objects.tla replayed on real objects + seeded random histories; evaluations = API calls executed; distinct by action "
                     "sequence; non-trivial = at least two evaluate calls")
    v.cov["samples"] = [[{k: e[k] for k in ("act", "e", "c", "inp", "sgt", "ra", "log", "vb", "pool", "src")} for e in t["ev"]] for t in traces[:2]]
    v.assumptions += ["TLC, CommunityModules", "results are compared through a digest of the bit patterns of 22 reported attributes per group "
                      "(computation_time excluded); whether an evaluator has computed its keys is tracked by the harness from the history"]


# --------------------------------------------------------------------------------------
# C19 is in checks_config.py (imported below so that one registry serves both)
# --------------------------------------------------------------------------------------
REGISTRY = {"C15": check_C15}
try:
    from .checks_config import check_C19
    REGISTRY["C19"] = check_C19
except ModuleNotFoundError:
    pass
