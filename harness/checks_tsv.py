"""Checks C18 (what the aggregator writes is what the statistics loader reads) and C20 (dataset summaries)."""
from __future__ import annotations

import itertools
import math
import random
import shutil
import struct
import traceback
from fractions import Fraction
from pathlib import Path

import numpy as np

from . import common, drive, gen
from .common import Verdict, seed
from .drive import quiet
from .engine import run_models, self_test_models, validate_traces
from .project import TOK, rat_record, var_record
from .rec_pipeline import DEFAULT_H, default_cfg, make_evaluator
from .checks_pipeline import rand_handler

C18_CLAUSES = ["T_Completes", "T_MetricsDashFree", "T_HeaderWritten", "T_HeaderParses", "T_SubjectsRecovered", "T_GroupsRecovered",
               "T_NoColumnShift", "T_ReadBack", "T_LineCount", "T_RowCells", "T_HeaderText", "T_RowText"]
C18_DRIFT = ("T_HeaderText", "T_RowText")      # the text form of the file: not prescribed by C18
C20_CLAUSES = ["T_Completes", "T_Loaded", "T_PerSubject", "T_PerSubjectAnyOrder", "T_Summary", "T_OrderIrrelevant", "T_Across", "T_AcrossValues",
               "T_QueriesReadOnly"]


def chars(s: str):
    return list(s)


def ftoken(x) -> str:
    """bit-exact token of a reported value: hex text of the double, or a missing token"""
    if x is None:
        return "none"
    try:
        xf = float(x)
    except (TypeError, ValueError):
        return "absent"
    if math.isnan(xf):
        return "nan"
    if math.isinf(xf):
        return "inf" if xf > 0 else "-inf"
    return struct.pack(">d", xf).hex()


GROUP_NAMES = ["a", "B", "left-side", "left_side", "a b", "L-R-x", "-", "x-", "-x", "Upper Case", "ungrouped", "g.1", "ä", "a--b", "group-1"]
SUBJECT_NAMES = ["s1", "sub-01", "a b", "subject_name", "Ünï", "x\ty", 'q"uote', "s,1", " lead", "trail ", "-", "0", "1e5", "nan", "#c",
                 # decomposed (non-NFC) spellings, as file systems hand them out, next to the composed one
                 "Mu\u0308ller", "M\u00fcller", "cafe\u0301"]


def rec_c18(rng, workdir: Path, meta=None) -> dict:
    from panoptica import Panoptica_Aggregator, Panoptica_Statistic
    from panoptica.utils import SegmentationClassGroups, LabelGroup, LabelMergeGroup
    ng = rng.choice([1, 1, 2, 3])
    names = []
    for n in rng.sample(GROUP_NAMES, len(GROUP_NAMES)):
        if n.lower() not in [x.lower() for x in names]:
            names.append(n)
        if len(names) == ng:
            break
    use_groups = rng.random() < 0.8
    cfg = default_cfg(input=rng.choice(["UNM", "MAT", "SEM"]), h=rng.choice([DEFAULT_H, rand_handler(rng)]),
                      im=rng.choice([["DSC", "IOU", "ASSD", "RVD"], ["DSC", "IOU"], ["IOU"], ["DSC", "ASSD"]]),
                      gm=rng.choice([["DSC"], [], ["DSC", "IOU", "RVD"], ["ASSD"]]),
                      dm=rng.choice(["NONE", "NONE", "IOU"]), dthr=[1, 2])
    if cfg["dm"] != "NONE" and cfg["dm"] not in cfg["im"]:
        cfg["dm"] = "NONE"
    groups = None
    if use_groups:
        gd = {}
        for i, n in enumerate(names):
            lab = i + 1
            gd[n] = LabelMergeGroup([lab]) if rng.random() < 0.2 else LabelGroup([lab], single_instance=False)
        groups = SegmentationClassGroups(gd)
    subjects = rng.sample(SUBJECT_NAMES, rng.randint(1, 4))
    if rng.random() < 0.2:
        # names that are prefixes / suffixes / substrings of one another, the longest first
        subjects = rng.choice([["patient_12", "patient_1", "12", "t_1"], ["Case-A (left)", "left", "Case-A", "(left)"], ["s10", "s1", "0", "1", "s"]])
        subjects = subjects[: rng.randint(2, len(subjects))]
    rec = {"groups": [], "metrics": [], "header": [], "first": [], "subjects": [chars(s) for s in subjects], "reported": [], "lines": [], "celltext": [],
           "fsubjects": [], "loaded": [], "lgroups": [], "lmetrics": [], "out": "ok",
           "meta": {"gen": "random", "group_names": names if use_groups else ["ungrouped"], "subject_names": subjects, "cfg": {k: v for k, v in cfg.items() if k != "h"}}}
    shutil.rmtree(workdir, ignore_errors=True)
    workdir.mkdir(parents=True)
    out = workdir / "out.tsv"
    try:
        with quiet(), drive.time_limit(240):
            ev = make_evaluator(cfg, groups=groups, log_times=False)
            keys = list(ev.resulting_metric_keys)
            gnames = list(ev.segmentation_class_groups_names)
            agg = Panoptica_Aggregator(ev, str(out))
            reported = []
            # a second session continuing the file with the SAME groups declared in another order: it may
            # be refused; if it is accepted, every value must still come back under its own group
            switch_at = rng.randint(1, len(subjects) - 1) if use_groups and len(names) >= 2 and len(subjects) >= 2 and rng.random() < 0.3 else None
            written = []
            for si, s in enumerate(subjects):
                if switch_at is not None and si == switch_at:
                    ev_b = make_evaluator(cfg, groups=SegmentationClassGroups(dict(reversed(list(gd.items())))), log_times=False)
                    try:
                        agg_b = Panoptica_Aggregator(ev_b, str(out))
                    except AssertionError:
                        rec["meta"]["reordered_session"] = "refused"
                        break
                    rec["meta"]["reordered_session"] = "accepted"
                    ev, agg = ev_b, agg_b
                written.append(s)
                shape = rng.choice([(5, 5), (4, 4, 4), (8,)])
                k = len(names) if use_groups else 3
                x = rng.random()
                pred = np.zeros(shape, dtype=np.uint8) if x < 0.15 else (gen.rand_instances(rng, shape, rng.randint(1, 3)) % (k + 1)).astype(np.uint8)
                ref = np.zeros(shape, dtype=np.uint8) if 0.1 < x < 0.25 else (gen.rand_instances(rng, shape, rng.randint(1, 3)) % (k + 1)).astype(np.uint8)
                res = ev.evaluate(pred.copy(), ref.copy(), verbose=False)
                row, texts = [], []
                for g in gnames:
                    d = res[g][0].to_dict()
                    for key in keys:
                        row.append(ftoken(d[key]) if key in d else "absent")
                        texts.append(chars("" if key not in d else ("" if d[key] is None else str(d[key]))))
                reported.append(row)
                rec["celltext"].append(texts)
                agg.evaluate(pred, ref, s)
            subjects = written
            rec["subjects"] = [chars(x) for x in subjects]
            rec["meta"]["subject_names"] = subjects
            rec["groups"] = [chars(g) for g in gnames]
            rec["metrics"] = [chars(k) for k in keys]
            rec["reported"] = reported
            text = out.read_text(encoding="utf8")
            import csv
            import io
            rows = list(csv.reader(io.StringIO(text, newline=""), delimiter="\t", lineterminator="\n"))
            rec["lines"] = [chars(ln + "\n") for ln in text.split("\n")[:-1]]
            rec["first"] = chars(rows[0][0])
            rec["header"] = [chars(c) for c in rows[0][1:]]
            st = Panoptica_Statistic.from_file(str(out))
            rec["fsubjects"] = [chars(s) for s in st.subjectnames]
            rec["lgroups"] = [chars(g) for g in st.groupnames]
            rec["lmetrics"] = [chars(m) for m in st.metricnames]
            loaded = []
            for g in gnames:
                per_m = []
                for key in keys:
                    vals = st.get(g, key)
                    per_m.append(["missing" if x is None else ftoken(x) for x in vals])
                loaded.append(per_m)
            rec["loaded"] = loaded
    except Exception as e:  # noqa: BLE001
        rec["out"] = "raise"
        rec["meta"]["exception"] = f"{type(e).__name__}: {e}"[:300]
        rec["meta"]["tb"] = traceback.format_exc()[-700:]
        for k in ("groups", "metrics", "header", "first", "reported", "fsubjects", "loaded", "lgroups", "lmetrics", "lines", "celltext"):
            rec[k] = rec[k] or []
    finally:
        shutil.rmtree(workdir, ignore_errors=True)
    return rec


def site_c18(rec, clause):
    names = rec["meta"].get("group_names", [])
    return {"out": rec["out"], "group_has_dash": any("-" in n for n in names), "exc": (rec["meta"].get("exception", "").split(":")[0]),
            "subject_named_like_header": "subject_name" in rec["meta"].get("subject_names", []),
            "gen": rec["meta"].get("gen", "")}


def check_C18(tier: str, v: Verdict):
    drive.use_serial_pool()
    rng = random.Random(seed() * 7919 + 18)
    run_models(v, [("MC_Tsv", "MC_Tsv.cfg")])
    if tier == "thorough":
        self_test_models(v, [("MC_Tsv", "MC_Tsv_legacy.cfg", "RoundTrip")])
    root = common.scratch("C18-runs")
    try:
        recs = [rec_c18(rng, root / f"r{i}") for i in range(150 if tier == "quick" else 2500)]
    finally:
        shutil.rmtree(root, ignore_errors=True)
    v.cov["evaluations"] = len(recs)
    v.cov["distinct_nontrivial"] = len({(tuple(r["meta"]["group_names"]), tuple(r["meta"]["subject_names"]), str(r["meta"]["cfg"])) for r in recs})
    v.cov["rule"] = ("aggregator runs: evaluator configs (metric selections, input types, handlers, 1-3 class groups with names containing "
                     "'-', '_', spaces, upper case, unicode) x 1-4 subjects with printable names (tabs, quotes, commas, the word subject_name) x "
                     "inputs producing finite, NaN, infinite, None and absent values; written by the aggregator, read by from_file; distinct by "
                     "(group names, subject names, config)")
    v.cov["samples"] = [{"groups": r["meta"]["group_names"], "subjects": r["meta"]["subject_names"], "cfg": r["meta"]["cfg"]} for r in recs[:3]]
    validate_traces(v, "Trace_Tsv", C18_CLAUSES, recs, site_c18, drift_clauses=C18_DRIFT,
                    what_fn=lambda r, c: f"groups={r['meta']['group_names']} subjects={r['meta']['subject_names']} {r['meta'].get('exception', '')[:100]}")
    v.assumptions += ["TLC, CommunityModules", "finite floats are compared as the hex text of the double (bit-exact) - TLC compares the tokens; "
                      "strings are handed to TLC as sequences of characters"]


# --------------------------------------------------------------------------------------
# C20
# --------------------------------------------------------------------------------------
CELLS = [("0", Fraction(0)), ("0.5", Fraction(1, 2)), ("1", Fraction(1)), ("3", Fraction(3)), ("-0.25", Fraction(-1, 4)), ("0.125", Fraction(1, 8)),
         ("2.5", Fraction(5, 2)), ("", None), ("nan", "nan"), ("inf", "inf"), ("-inf", "ninf")]


def cell_record(val):
    if val is None:
        return {"k": "empty", "v": [0, 1]}
    if isinstance(val, str):
        return {"k": val, "v": [0, 1]}
    return {"k": "rat", "v": [val.numerator, val.denominator]}


def loaded_record(x):
    if x is None:
        return {"k": "none", "v": [0, 1]}
    return rat_record(x, 64)


def summ_record(vs, den_avg=48, den_var=48 * 48 * 6):
    """Cells are multiples of 1/8 and there are at most 6 subjects and 3 groups, so a per-group average has a
    denominator dividing 8n <= 48 and a variance one dividing (8n)^2 n; an across-groups average (of <= 3
    per-group averages) has a denominator dividing 480*3 and its variance one dividing (1440)^2 * 3."""
    if vs is None:
        return {"has": False, "avg": TOK("skip"), "var": TOK("skip"), "min": TOK("skip"), "max": TOK("skip")}
    return {"has": True, "avg": rat_record(vs.avg, den_avg), "var": var_record(vs.std, den_var), "min": rat_record(vs.min, den_avg),
            "max": rat_record(vs.max, den_avg)}


def rec_c20(table, ng, nm, subjects, workdir: Path, perm, meta=None) -> dict:
    """table[i][j] = (text, value) for subject i and column j"""
    from panoptica import Panoptica_Statistic
    ns = len(subjects)
    groups = [f"g{g}" for g in range(1, ng + 1)]
    metrics = [f"m{m}" for m in range(1, nm + 1)]
    rec = {"ng": ng, "nm": nm, "ns": ns, "cells": [[cell_record(c[1]) for c in row] for row in table], "out": "ok",
           "loaded": [], "one": [], "onep": [], "colp": [], "summ": [], "across": [], "summp": [], "summ2": [], "loaded2": [], "acrossvals": [],
           "meta": dict(meta or {})}
    rec["meta"]["table"] = [[c[0] for c in row] for row in table]
    shutil.rmtree(workdir, ignore_errors=True)
    workdir.mkdir(parents=True)

    def write(path, order):
        with open(path, "w", encoding="utf8", newline="") as f:
            f.write("\t".join(["subject_name"] + [f"{g}-{m}" for g in groups for m in metrics]) + "\n")
            for i in order:
                f.write("\t".join([subjects[i]] + [c[0] for c in table[i]]) + "\n")

    def summaries(st):
        out = []
        for g in groups:
            row = []
            for m in metrics:
                try:
                    row.append(summ_record(st.get_summary(g, m)))
                except Exception:  # noqa: BLE001  (nothing finite: outside the property)
                    row.append(summ_record(None))
            out.append(row)
        return out

    try:
        import warnings
        with quiet(), warnings.catch_warnings(), drive.time_limit(240):
            warnings.simplefilter("ignore")
            write(workdir / "t.tsv", range(ns))
            st = Panoptica_Statistic.from_file(str(workdir / "t.tsv"))
            rec["loaded"] = [[[loaded_record(x) for x in st.get(g, m)] for m in metrics] for g in groups]
            rec["one"] = []
            for s in subjects:
                d = st.get_one_subject(s)
                rec["one"].append([[loaded_record(d[g][m]) for m in metrics] for g in groups])
            rec["summ"] = summaries(st)
            try:
                ac = st.get_summary_across_groups()
                rec["across"] = [summ_record(ac[m], 1440, 1440 * 1440 * 3) for m in metrics]
            except Exception:  # noqa: BLE001
                rec["across"] = [summ_record(None) for m in metrics]
            # every accessor of the statistics object is a pure observer: use them all, then ask again
            ag = []
            for m in metrics:
                try:
                    ag.append([loaded_record(x) for x in st.get_across_groups(m)])
                    st.get_across_groups(m)
                except Exception:  # noqa: BLE001
                    ag.append([])
            rec["acrossvals"] = ag
            try:
                st.get_summary_dict(include_across_group=False)
            except Exception:  # noqa: BLE001
                pass
            rec["summ2"] = summaries(st)
            rec["loaded2"] = [[[loaded_record(x) for x in st.get(g, m)] for m in metrics] for g in groups]
            write(workdir / "p.tsv", perm)
            stp = Panoptica_Statistic.from_file(str(workdir / "p.tsv"))
            rec["summp"] = summaries(stp)
            # per-subject lookup and the alignment of the columns with the subject names, whatever the row order
            rec["onep"] = []
            for s in subjects:
                d = stp.get_one_subject(s)
                rec["onep"].append([[loaded_record(d[g][m]) for m in metrics] for g in groups])
            names_p = list(stp.subjectnames)
            rec["colp"] = [[[loaded_record(stp.get(g, m)[names_p.index(s)]) for m in metrics] for g in groups] for s in subjects]
    except Exception as e:  # noqa: BLE001
        rec["out"] = "raise"
        rec["meta"]["exception"] = f"{type(e).__name__}: {e}"[:300]
        rec["meta"]["tb"] = traceback.format_exc()[-700:]
        z = summ_record(None)
        rec["loaded"] = rec["loaded"] or [[[TOK("skip")] * ns] * nm] * ng
        rec["one"] = rec["one"] or [[[TOK("skip")] * nm] * ng] * ns
        rec["onep"] = rec["onep"] or [[[TOK("skip")] * nm] * ng] * ns
        rec["colp"] = rec["colp"] or [[[TOK("skip")] * nm] * ng] * ns
        rec["summ"] = rec["summ"] or [[z] * nm] * ng
        rec["summp"] = rec["summp"] or [[z] * nm] * ng
        rec["summ2"] = rec["summ2"] or [[z] * nm] * ng
        rec["loaded2"] = rec["loaded2"] or [[[TOK("skip")] * ns] * nm] * ng
        rec["acrossvals"] = rec["acrossvals"] or [[TOK("skip")]] * nm
        rec["across"] = rec["across"] or [z] * nm
    finally:
        shutil.rmtree(workdir, ignore_errors=True)
    return rec


def site_c20(rec, clause):
    flat = [c for row in rec["meta"].get("table", []) for c in row]
    return {"out": rec["out"], "has_neg_inf": "-inf" in flat, "has_inf": "inf" in flat, "has_nan": "nan" in flat,
            "has_empty": "" in flat, "exc": rec["meta"].get("exception", "").split(":")[0], "gen": rec["meta"].get("gen", "")}


def check_C20(tier: str, v: Verdict):
    rng = random.Random(seed() * 7919 + 20)
    run_models(v, [("MC_Stats", "MC_Stats.cfg")])
    root = common.scratch("C20-runs")
    recs = []
    try:
        # exhaustive: 2 subjects x 1 group x 1 metric over all cell kinds, both row orders; 3 subjects over a reduced set
        k = 0
        for a, b in itertools.product(CELLS, repeat=2):
            recs.append(rec_c20([[a], [b]], 1, 1, ["s1", "s2"], root / f"e{k}", [1, 0], meta={"gen": "exhaustive-2x1"}))
            k += 1
        small = [CELLS[0], CELLS[1], CELLS[7], CELLS[8], CELLS[9], CELLS[10]]
        for a, b, c in itertools.product(small, repeat=3):
            recs.append(rec_c20([[a], [b], [c]], 1, 1, ["s1", "s2", "s3"], root / f"e{k}", [2, 0, 1], meta={"gen": "exhaustive-3x1"}))
            k += 1
        for i in range(150 if tier == "quick" else 4000):
            ng, nm, ns = rng.randint(1, 3), rng.randint(1, 3), rng.randint(1, 6)
            finite_bias = rng.choice([0.5, 0.8, 1.0])
            def cell():
                return rng.choice(CELLS[:7]) if rng.random() < finite_bias else rng.choice(CELLS[7:])
            table = [[cell() for _ in range(ng * nm)] for _ in range(ns)]
            perm = list(range(ns))
            rng.shuffle(perm)
            names = [f"s{j}" for j in range(ns)]
            if rng.random() < 0.4:
                # subject names that are prefixes / suffixes of one another, in any recording order: a lookup is
                # by the exact name
                names = rng.sample(["sub-10", "sub-1", "sub-100", "sub", "case_3.nii.gz", "case_3", "1", "10", "b-sub-1"], ns)
            recs.append(rec_c20(table, ng, nm, names, root / f"r{i}", perm, meta={"gen": "random", "subject_names": names}))
    finally:
        shutil.rmtree(root, ignore_errors=True)
    v.cov["evaluations"] = len(recs)
    v.cov["distinct_nontrivial"] = len({str(r["meta"]["table"]) for r in recs if any(c["k"] == "rat" for row in r["cells"] for c in row)})
    v.cov["rule"] = ("result tables written as .tsv and loaded with from_file: exhaustive 2x1 and 3x1 tables over {finite values, empty, nan, inf, "
                     "-inf} and seeded random tables (1-3 groups x 1-3 metrics x 1-6 subjects), each loaded in two row orders; distinct by table; "
                     "non-trivial = at least one finite value")
    v.cov["samples"] = [r["meta"]["table"] for r in recs[:: max(1, len(recs) // 3)][:3]]
    validate_traces(v, "Trace_Stats", C20_CLAUSES, recs, site_c20,
                    what_fn=lambda r, c: f"table={r['meta']['table']} {r['meta'].get('exception', '')[:100]}")
    v.assumptions += ["TLC, CommunityModules", "cell values are small rationals so that mean and variance are exact rationals TLC can compute",
                      "groups / metrics without any finite value are outside the property (get_summary raises there) and are skipped"]


REGISTRY = {"C18": check_C18, "C20": check_C20}
