"""Parsing the behaviour files written by `tlc -simulate file=<prefix>,num=N` (one TLA+ module per
behaviour: `\\* <Action line ...>` comments followed by `STATE_n == /\\ var = value ...`)."""
from __future__ import annotations

import re
from pathlib import Path

from .tlaparse import parse

_STATE = re.compile(r"\\\* <(\w+) line [^>]*>\s*\nSTATE_(\d+) ==\s*\n(.*?)(?=\n\n\\\*|\n=+\s*$|\Z)", re.S)


def parse_behaviour_file(path) -> list[tuple[str, dict]]:
    text = Path(path).read_text()
    out = []
    for m in _STATE.finditer(text):
        action, body = m.group(1), m.group(3)
        vars_ = {}
        cur, buf = None, []
        for line in body.splitlines():
            mm = re.match(r"^/\\ (\w+) = (.*)$", line)
            if mm:
                if cur is not None:
                    vars_[cur] = parse("\n".join(buf))
                cur, buf = mm.group(1), [mm.group(2)]
            elif cur is not None:
                buf.append(line)
        if cur is not None:
            vars_[cur] = parse("\n".join(buf))
        out.append((action, vars_))
    return out
