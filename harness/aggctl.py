"""Controller for Panoptica_Aggregator sessions (C16, C17).

A *session* is a forked child process (own process group) that constructs the aggregators of a
scenario in its main thread, runs the scenario's calls (evaluate / make_statistic) in worker
threads and finally runs its exit handlers.  Inside the child, the namespaces of
panoptica.panoptica_aggregator and panoptica.panoptica_statistics are wrapped from outside (no
repository hook): the two locks, open(), os.remove, Path.exists, atexit.register and the
evaluator.  Every lock or file operation is a *yield point*: the thread reports the operation it
is about to perform and blocks until the controller (parent process) grants it.  The controller
therefore decides the interleaving, can deliver a real SIGKILL to the session between any two
operations, and reads the files after every single step.

acquire is only granted when the controller knows the lock to be free, so "no grantable thread
while calls are unfinished" is a definitive deadlock, not a timeout.
"""
from __future__ import annotations

import contextlib
import io
import json
import multiprocessing as mp
import os
import random
import shutil
import signal
import sys
import threading
import time
import traceback
from multiprocessing.connection import wait as conn_wait
from pathlib import Path

import numpy as np

MAIN = -1
HANG_S = 60.0
SOFT_S = 2.0      # silence of a running actor after which the others may go on (see SessionRun.settle);
SOFT_AGAIN_S = 0.4  # ... once that has happened in a session (unobserved blocking is known to exist)


class Hang(Exception):
    pass


# --------------------------------------------------------------------------------------
# scenario
# --------------------------------------------------------------------------------------
class Scenario:
    def __init__(self, aggs, calls, init="absent", prior=(), normal_exit=True, same_dir=True, name="", out_names=None,
                 workers="threads", split_writes=False):
        self.aggs = list(aggs)                  # ["A"] / ["A", "B"]
        self.calls = [dict(c) for c in calls]   # {"agg", "kind": "eval"|"stat", "subj"}
        self.init = init                        # "absent" | "empty" | "header" | "rows"
        self.prior = list(prior)                # subjects already in the file when init == "rows"
        self.normal_exit = normal_exit
        self.same_dir = same_dir
        self.name = name
        self.out_names = dict(out_names or {})     # aggregator id -> file name of its output file
        self.workers = workers                     # "threads" | "processes": how the calls of a session run
        # environment: a data row reaches the output file in two pieces (as a long row does through a
        # buffered writer); between the pieces the file ends with a torn line and everybody may run
        self.split_writes = bool(split_writes)

    def subjects(self, agg):
        return [c["subj"] for c in self.calls if c["agg"] == agg and c["kind"] == "eval"]

    def key(self):
        return json.dumps([self.aggs, self.calls, self.init, self.prior, self.normal_exit, self.same_dir])


def subject_arrays(name: str):
    """deterministic small input per subject name"""
    rng = random.Random("subj:" + name)
    ref = np.zeros((6, 6), dtype=np.uint8)
    pred = np.zeros((6, 6), dtype=np.uint8)
    a, b = rng.randint(0, 2), rng.randint(0, 2)
    ref[a:a + 3, b:b + 3] = 1
    pred[a:a + 3, b + rng.randint(0, 1):b + 3] = 1
    if rng.random() < 0.5:
        ref[5, 5] = 2
        pred[5, 4:6] = 2
    return pred, ref


def make_evaluator():
    from panoptica import InputType, Panoptica_Evaluator, NaiveThresholdMatching
    return Panoptica_Evaluator(expected_input=InputType.UNMATCHED_INSTANCE, instance_matcher=NaiveThresholdMatching())


# --------------------------------------------------------------------------------------
# reference (sequential, uncontrolled) run: header text and the row every subject must carry
# --------------------------------------------------------------------------------------
_REF_CACHE: dict = {}


def _first_cell(line: str) -> str:
    """first cell of a physical line, read with the csv dialect of the library's own readers (the
    writer is free to quote cells)"""
    import csv
    try:
        row = next(csv.reader([line], delimiter="\t", lineterminator="\n"), [])
    except csv.Error:
        row = []
    return row[0] if row else line.split("\t")[0]


def reference_rows(names, workdir: Path):
    key = tuple(sorted(names))
    if key in _REF_CACHE:
        return _REF_CACHE[key]
    from . import drive
    from panoptica import Panoptica_Aggregator
    d = workdir / "ref"
    shutil.rmtree(d, ignore_errors=True)
    d.mkdir(parents=True)
    out = d / "ref.tsv"
    with drive.quiet():
        agg = Panoptica_Aggregator(make_evaluator(), str(out))
        for n in sorted(names):
            p, r = subject_arrays(n)
            agg.evaluate(p, r, n)
    lines = out.read_text().split("\n")
    header = lines[0]
    rows = {_first_cell(ln): ln for ln in lines[1:] if ln}
    for f in d.glob("*tmp*"):
        f.unlink()
    _REF_CACHE[key] = (header, rows)
    return header, rows


# --------------------------------------------------------------------------------------
# the child side: wrappers
# --------------------------------------------------------------------------------------
_tl = threading.local()


def _yield(op, info=None):
    conn = getattr(_tl, "conn", None)
    if conn is None:
        return
    conn.send(("req", op, info))
    msg = conn.recv()
    if msg[0] != "go":
        raise RuntimeError(f"controller said {msg}")


class LockW:
    """Wraps the module's own lock object.  acquire() is a sequence of non-blocking attempts, each one
    a yield point: the controller sees whether the REAL lock let the thread / process in, so a lock
    that does not exclude (e.g. a per-process copy after fork) is observed instead of assumed."""

    def __init__(self, real, name):
        self.real, self.name = real, name

    def acquire(self, *a, **k):
        blocking = k.get("block", k.get("blocking", a[0] if a else True))
        timeout = k.get("timeout", a[1] if len(a) > 1 else None)
        info = None
        while True:
            _yield("acq_" + self.name, info)
            if self.real.acquire(False):
                return True
            if not blocking or (timeout is not None and timeout <= 0):
                return False                 # a non-blocking attempt of the code under test stays one
            info = "retry"

    def release(self):
        _yield("rel_" + self.name)
        return self.real.release()

    def __enter__(self):
        self.acquire()
        return self

    def __exit__(self, *exc):
        self.release()
        return False


def fresh_like(lock):
    """what a fresh interpreter would create at import time for this module-level lock"""
    import multiprocessing.synchronize as ms
    if isinstance(lock, ms.RLock):
        return mp.RLock()
    if isinstance(lock, ms.Lock):
        return mp.Lock()
    if type(lock).__name__ == "RLock":
        return threading.RLock()
    return threading.Lock()


class FileW:
    split = False          # set by Wrappers.install from the scenario

    def __init__(self, f, which, mode, path):
        self._f, self._which, self._mode, self._path = f, which, mode, path
        self._read_reported = False
        self._closed = False
        self._pending: list[str] = []

    def _report_read(self):
        if not self._read_reported:
            self._read_reported = True
            _yield("read_" + self._which, self._path)
            if self._which == "out":
                # what this caller is about to see (nobody else runs before its next yield point)
                try:
                    with open(self._path, "r", encoding="utf8", newline="") as g:
                        _tl.last_read_out = g.read()
                except OSError:
                    _tl.last_read_out = None

    def __iter__(self):
        self._report_read()
        return iter(self._f)

    def read(self, *a):
        self._report_read()
        return self._f.read(*a)

    def readline(self, *a):
        self._report_read()
        return self._f.readline(*a)

    def readlines(self, *a):
        self._report_read()
        return self._f.readlines(*a)

    def write(self, s):
        self._pending.append(s)          # buffered: reaches the file at flush / close
        return len(s)

    def _drain(self):
        data, self._pending = "".join(self._pending), []
        return data

    def flush(self):
        # an explicit flush makes what was written so far visible to every other caller (and
        # durable across a kill): a yield point of its own.  The shipped code never flushes - a row
        # reaches the file at close, as one write.
        if self._mode[0] in "aw" and not self._closed:
            _yield("flush_" + self._which, self._path)         # granted: what was written so far goes out
            self._f.write(self._drain())
            self._f.flush()
        return None

    def close(self):
        if self._closed:
            return
        self._closed = True
        if self._mode[0] in "aw":
            data = self._drain()
            if FileW.split and self._which == "out" and data.count("\n") == 1 and not data.startswith("subject_name") and len(data) >= 4:
                # a data row in two pieces: the first half is in the file (torn line) when the others run
                k = max(data.index("\t") + 1 if "\t" in data else 1, len(data) // 2)
                _yield("part_" + self._which, self._path)      # granted: the first piece goes out
                self._f.write(data[:k])
                self._f.flush()
                data = data[k:]
            _yield("close_a_" + self._which, self._path)
            self._f.write(data)
        self._f.close()

    def __enter__(self):
        return self

    def __exit__(self, *exc):
        self.close()
        return False

    def __getattr__(self, k):
        return getattr(self._f, k)


class Wrappers:
    """installed in the child only"""

    def __init__(self, out_paths):
        self.out_paths = {str(p) for p in out_paths}
        self.handlers = []

    def which(self, path):
        return "out" if str(path) in self.out_paths else "buf"

    def tracked(self, path):
        s = str(path)
        return s.endswith(".tsv") or "panoptica_aggregator_tmp" in s

    def install(self):
        import builtins
        import pathlib
        import panoptica.panoptica_aggregator as pa
        import panoptica.panoptica_statistics as ps
        w = self
        real_open = builtins.open
        FileW.split = bool(getattr(self, "split_writes", False))

        def open_w(path, mode="r", *a, **k):
            if not w.tracked(path):
                return real_open(path, mode, *a, **k)
            which = w.which(path)
            m = "a" if mode[0] in "aw" else "r"
            _yield(f"open_{m}_{which}", str(path))
            return FileW(real_open(path, mode, *a, **k), which, mode, str(path))

        pa.open = open_w
        ps.open = open_w
        # every module-level lock of the module under test (the shipped one has two)
        import multiprocessing.synchronize as ms
        lock_types = (ms.Lock, ms.RLock, type(threading.Lock()), type(threading.RLock()))
        for attr, val in list(vars(pa).items()):
            if isinstance(val, lock_types):
                setattr(pa, attr, LockW(fresh_like(val), {"filelock": "file", "inevalfilelock": "eval"}.get(attr, attr)))

        class OsW:
            def __getattr__(self, k):
                return getattr(os, k)

            def remove(self, path):
                if w.tracked(path):
                    _yield("rm_" + w.which(path), str(path))
                return os.remove(path)

        pa.os = OsW()

        class AtexitW:
            def register(self, fn, *a, **k):
                _yield("atexit_register")
                w.handlers.append((fn, a, k))
                return fn

        pa.atexit = AtexitW()
        real_exists = pathlib.Path.exists

        def exists_w(self_path, *a, **k):
            if w.tracked(self_path):
                _yield("exists_" + w.which(self_path), str(self_path))
            return real_exists(self_path, *a, **k)

        pathlib.Path.exists = exists_w


class EvW:
    """the evaluator handed to the aggregator: the evaluation itself is one (unlocked) step"""

    def __init__(self, real):
        self._real = real

    @property
    def segmentation_class_groups_names(self):
        return self._real.segmentation_class_groups_names

    @property
    def resulting_metric_keys(self):
        return self._real.resulting_metric_keys

    def evaluate(self, *a, **k):
        _yield("compute")
        return self._real.evaluate(*a, **k)

    def __getattr__(self, k):
        return getattr(self._real, k)


def _child(scn: Scenario, out_paths: dict, conns: dict, use_real_pool: bool):
    try:
        os.setpgid(0, 0)
    except OSError:
        pass
    sys.stdout = open(os.devnull, "w")
    sys.stderr = open(os.environ.get("VERIF_AGG_STDERR", os.devnull), "a")      # (debugging aid)
    from . import drive
    if not use_real_pool:
        drive.use_serial_pool()
    import importlib
    import panoptica.panoptica_aggregator as pa
    # a session is a fresh interpreter as far as the aggregator module is concerned: its module-level
    # state (lock objects wherever they are kept, registries) is created anew - a killed session must
    # not leave this one with locks that are held forever
    try:
        importlib.reload(pa)
    except Exception:  # noqa: BLE001
        pass
    w = Wrappers(out_paths.values())
    w.split_writes = scn.split_writes
    w.install()
    _tl.conn = conns[MAIN]
    try:
        ev = make_evaluator()
        _ = ev.resulting_metric_keys           # computed before the session starts (not a yield point)
        aggs = {}
        for a in scn.aggs:
            aggs[a] = pa.Panoptica_Aggregator(EvW(ev), str(out_paths[a]))
        conns[MAIN].send(("spawned",))

        def body(actor, call):
            _tl.conn = conns[actor]
            info = None
            try:
                if call["kind"] == "eval":
                    p, r = subject_arrays(call["subj"])
                    aggs[call["agg"]].evaluate(p, r, call["subj"])
                else:
                    try:
                        st = aggs[call["agg"]].make_statistic()
                        info = list(st.subjectnames)
                    except IndexError:
                        # a file without any row yet: from_file cannot build an object (observation
                        # recorded in DESIGN 9, outside the listed properties) - an empty snapshot.
                        # Only that: an IndexError on a file in which this caller saw a row (or a torn
                        # line) is a failed call.
                        seen = getattr(_tl, "last_read_out", None)
                        if seen is not None and (seen.count("\n") > 1 or not seen.endswith("\n")) and seen != "":
                            raise
                        info = []
                status = "ok"
            except BaseException as e:  # noqa: BLE001
                status = f"err:{type(e).__name__}:{str(e)[:120]}"
            conns[actor].send(("done", status, info))

        if scn.workers == "processes":
            # forked worker processes (what NonDaemonicPool / ProcessPoolExecutor do), one per call
            pids = []
            for i, c in enumerate(scn.calls):
                pid = os.fork()
                if pid == 0:
                    try:
                        conns[i + 1].send(("pid", os.getpid()))
                        body(i + 1, c)
                    finally:
                        os._exit(0)
                pids.append(pid)
            for pid in pids:
                os.waitpid(pid, 0)
        else:
            ths = [threading.Thread(target=body, args=(i + 1, c), daemon=True) for i, c in enumerate(scn.calls)]
            for t in ths:
                t.start()
            for t in ths:
                t.join()
        _yield("join")
        if scn.normal_exit:
            for fn, a, k in w.handlers:
                fn(*a, **k)
        conns[MAIN].send(("over",))
    except BaseException as e:  # noqa: BLE001
        try:
            conns[MAIN].send(("done", f"err:{type(e).__name__}:{str(e)[:200]}", traceback.format_exc()[-1500:]))
        except Exception:  # noqa: BLE001
            pass
    finally:
        os._exit(0)


# --------------------------------------------------------------------------------------
# the parent side: one controlled session
# --------------------------------------------------------------------------------------
class SessionRun:
    def __init__(self, scn: Scenario, out_paths: dict, header: str, rows: dict, use_real_pool=False):
        self.scn, self.out_paths, self.header, self.rows = scn, out_paths, header, rows
        self.actors = [MAIN] + list(range(1, len(scn.calls) + 1))
        ctx = mp.get_context("fork")
        self.pconn, cconn = {}, {}
        for a in self.actors:
            self.pconn[a], cconn[a] = ctx.Pipe(duplex=True)
        self.proc = ctx.Process(target=_child, args=(scn, out_paths, cconn, use_real_pool), daemon=True)
        self.proc.start()
        for c in cconn.values():
            c.close()
        self.state = {a: "notstarted" for a in self.actors}
        self.state[MAIN] = "running"
        self.pending: dict[int, tuple] = {}
        self.status: dict[int, str] = {}
        self.snaps: list[dict] = []
        import collections
        # by lock name; "eval" and "file" are the two the shipped module has, any other module-level
        # lock of the module under test gets its attribute name
        self.lock_owner = collections.defaultdict(lambda: None, {"eval": None, "file": None})
        self.lock_epoch = collections.defaultdict(int, {"eval": 0, "file": 0})
        self.probe_locks = scn.workers == "processes"
        self.probed: set = set()
        self.pids: dict[int, int] = {}
        self.anomalies: list[dict] = []
        self.buf_paths: dict[str, set] = {a: set() for a in scn.aggs}
        self.events: list[dict] = []
        self.killed = False
        self.main_error = None
        self.stuck_events = 0
        try:
            self.settle()
        except Hang:
            self.kill()
            raise

    # -- message pump ------------------------------------------------------------------
    def settle(self, stuck_wait=None):
        """pump messages until no actor is running.  An actor that stays silent for SOFT_S while some
        other actor could be granted a step is marked "stuck": it is (presumably) waiting inside a
        blocking primitive the wrappers do not see (a lock kept somewhere else than in a module-level
        name, a file lock, ...).  The others go on - they may be what it is waiting for -, its next
        message is picked up whenever it comes; only when nobody can move is silence a hang."""
        t0 = time.time()
        while True:
            running = [a for a, s in self.state.items() if s == "running"]
            stuck = [a for a, s in self.state.items() if s == "stuck"]
            if not running and not (stuck and stuck_wait):
                if stuck:
                    ready = conn_wait([self.pconn[a] for a in stuck], timeout=0)
                    if ready:
                        self._pump(ready)
                        continue                 # (a message may have set somebody running again)
                return
            elsewhere = bool(self._grantable())
            tmo = stuck_wait if not running else ((SOFT_AGAIN_S if self.stuck_events else SOFT_S) if elsewhere else HANG_S)
            ready = conn_wait([self.pconn[a] for a in running + stuck], timeout=tmo)
            if not ready:
                if running and elsewhere:
                    for a in running:
                        self.state[a] = "stuck"
                    self.stuck_events += 1
                    return
                if running:
                    raise Hang(f"no message from running actors {running} within {HANG_S}s")
                return                                   # waited for the stuck ones in vain
            self._pump(ready)
            if stuck_wait and not running:
                stuck_wait = None                # one of them spoke: settle normally from here
                continue
            if time.time() - t0 > 4 * HANG_S:
                raise Hang("session does not settle")

    def _grantable(self):
        return [a for a, (op, _) in self.pending.items() if self.state.get(a) == "blocked"
                and not (op.startswith("acq_") and self.lock_owner[op[4:]] is not None)]

    def _pump(self, ready):
        if True:
            for c in ready:
                a = next(k for k, v in self.pconn.items() if v is c)
                try:
                    msg = c.recv()
                except EOFError:
                    self.state[a] = "dead"
                    continue
                if msg[0] == "pid":
                    self.pids[a] = msg[1]
                elif msg[0] == "req":
                    self.pending[a] = (msg[1], msg[2])
                    self.state[a] = "blocked"
                elif msg[0] == "spawned":
                    self.state[MAIN] = "joinwait"
                    for x in self.actors[1:]:
                        self.state[x] = "running"
                    if len(self.actors) == 1:
                        self.state[MAIN] = "running"
                elif msg[0] == "done":
                    self.status[a] = msg[1]
                    self.state[a] = "done"
                    if a == MAIN:
                        self.main_error = (msg[1], msg[2])
                    else:
                        call = self.scn.calls[a - 1]
                        if call["kind"] == "stat":
                            self.snaps.append({"out": "out_" + call["agg"], "rows": list(msg[2] or []), "status": msg[1], "actor": a})
                        # a lock held by a thread that died with an exception inside "with" was released through rel_*
                        if all(self.state[x] == "done" for x in self.actors[1:]) and self.state[MAIN] == "joinwait":
                            self.state[MAIN] = "running"
                elif msg[0] == "over":
                    self.state[MAIN] = "over"

    # -- scheduling ----------------------------------------------------------------------
    def enabled(self):
        out = []
        for a, (op, _) in sorted(self.pending.items()):
            if self.state[a] != "blocked":
                continue
            if op.startswith("acq_") and self.lock_owner[op[4:]] is not None:
                # the lock is believed to be held: the attempt may still be granted once per holding
                # period (probe): the real lock must refuse it
                key = (a, op, self.lock_epoch[op[4:]])
                if not self.probe_locks or key in self.probed:
                    continue
            out.append(a)
        if not out and any(s == "stuck" for s in self.state.values()) and not getattr(self, "_waiting_stuck", False):
            # nobody can be granted a step, but some actors are inside an unobserved blocking call:
            # give them the time a hang needs to be one
            self._waiting_stuck = True
            try:
                self.settle(stuck_wait=HANG_S)
            finally:
                self._waiting_stuck = False
            return self.enabled()
        return out

    def finished(self):
        return self.state[MAIN] in ("over", "done", "dead") or self.killed

    def grant(self, a):
        op, info = self.pending.pop(a)
        lock = op[4:] if op.startswith(("acq_", "rel_")) else None
        believed = self.lock_owner.get(lock) if lock else None
        if op.startswith("acq_") and believed is not None:
            self.probed.add((a, op, self.lock_epoch[lock]))
        if info and op.endswith("_buf"):
            self._note_buf(a, info)
        self.state[a] = "running"
        self.pconn[a].send(("go",))
        self.settle()
        if op.startswith("acq_"):
            nxt = self.pending.get(a)
            failed = nxt is not None and nxt[0] == op and nxt[1] == "retry"
            if failed:
                if believed is None:
                    self.anomalies.append({"kind": "LockRefusedWhileFree", "actor": a, "lock": lock, "step": len(self.events)})
                self.events.append({"p": a, "op": "acqfail_" + lock, "path": None, "stutter": True})
                return "acqfail_" + lock
            if believed is not None and believed != a:
                self.anomalies.append({"kind": "LockNotExclusive", "actor": a, "holder": believed, "lock": lock, "step": len(self.events)})
            self.lock_owner[lock] = a
        elif op.startswith("rel_"):
            if self.lock_owner[lock] == a:
                self.lock_owner[lock] = None
                self.lock_epoch[lock] += 1
        self.events.append({"p": a, "op": op, "path": info})
        return op

    def _note_buf(self, actor, path):
        if actor != MAIN:
            self.buf_paths[self.scn.calls[actor - 1]["agg"]].add(path)
        else:
            self.buf_paths.setdefault("_main", set()).add(path)

    def kill_worker(self, a):
        """SIGKILL of ONE forked worker process (beyond C16/C17: the single-worker-kill hazard)"""
        os.kill(self.pids[a], signal.SIGKILL)
        self.state[a] = "done"
        self.status[a] = "killed"
        self.pending.pop(a, None)
        self.events.append({"p": a, "op": "killed", "path": None})
        if all(self.state[x] == "done" for x in self.actors[1:]) and self.state[MAIN] == "joinwait":
            self.state[MAIN] = "running"
            self.settle()

    def kill(self):
        try:
            os.killpg(self.proc.pid, signal.SIGKILL)
        except (ProcessLookupError, PermissionError):
            try:
                os.kill(self.proc.pid, signal.SIGKILL)
            except ProcessLookupError:
                pass
        self.proc.join(10)
        self.killed = True
        for c in self.pconn.values():
            c.close()

    def close(self):
        if not self.killed:
            self.proc.join(10)
            if self.proc.is_alive():
                self.kill()
            else:
                for c in self.pconn.values():
                    c.close()


# --------------------------------------------------------------------------------------
# reading the files the way a user would
# --------------------------------------------------------------------------------------
def read_lines(path: Path, header: str, rows: dict, is_out: bool):
    if not path.exists():
        return {"ex": False, "ls": []}
    data = path.read_text(encoding="utf8")
    parts = data.split("\n")
    tail = parts.pop()           # text after the last newline: a torn line if non-empty
    out = []
    for ln in parts:
        first = _first_cell(ln)
        if is_out:
            if ln == header:
                out.append("H")
            elif first in rows and ln == rows[first]:
                out.append(first)
            elif first in rows:
                out.append("BADVAL:" + first)
            elif first == "subject_name":
                out.append("X")                      # a header, but not this configuration's
            else:
                out.append("ALIEN:" + first[:20] if first != "q" else "q")
        else:
            out.append(first)
    if tail:
        first = _first_cell(tail)
        if is_out and first in rows and rows[first].startswith(tail) and "\t" in tail:
            out.append("~" + first)              # the first piece of the row of a known subject (Aggregator.Torn)
        else:
            out.append("TORN:" + tail[:20])
    return {"ex": True, "ls": out}


# --------------------------------------------------------------------------------------
# a history: several sessions on the same files
# --------------------------------------------------------------------------------------
class History:
    """Runs sessions of one scenario on one scratch directory and records the trace."""

    def __init__(self, scn: Scenario, workdir: Path, use_real_pool=False):
        self.scn, self.workdir = scn, workdir
        shutil.rmtree(workdir, ignore_errors=True)
        workdir.mkdir(parents=True)
        names = sorted({c["subj"] for c in scn.calls if c["kind"] == "eval"} | (set(scn.prior) if scn.init != "foreign" else set()))
        self.header, self.rows = reference_rows(names, workdir)
        self.out_paths = {}
        for i, a in enumerate(scn.aggs):
            d = workdir / ("d" if scn.same_dir else f"d{i}")
            d.mkdir(exist_ok=True)
            self.out_paths[a] = d / scn.out_names.get(a, f"{a}.tsv")
            if scn.init == "empty":
                self.out_paths[a].write_text("")
            elif scn.init == "header":
                self.out_paths[a].write_text(self.header + "\n")
            elif scn.init == "rows":
                self.out_paths[a].write_text(self.header + "\n" + "".join(self.rows[s] + "\n" for s in scn.prior))
            elif scn.init == "foreign":
                # a file written with another configuration: different header, one row
                self.out_paths[a].write_text("subject_name\tother-metric\nq\t1.0\n")
        self.use_real_pool = use_real_pool
        self.events: list[dict] = []       # all sessions, with crash / restart markers
        self.ends: list[int] = []          # event indices at which a session ended unkilled
        self.buf_paths: dict[str, set] = {a: set() for a in scn.aggs}
        self.deadlock = None
        self.hang = None
        self.failed_calls: list[tuple] = []
        self.snaps: list[dict] = []
        self.schedule: list = []
        self.ctor_failed = False
        self.last_killed = False
        self.anomalies: list[dict] = []
        self.sessions = 0
        self.init_files = None

    def snapshot(self):
        files = {}
        for a in self.scn.aggs:
            files["out_" + a] = read_lines(self.out_paths[a], self.header, self.rows, True)
        bufs = {}
        for a in self.scn.aggs:
            for p in sorted(self.buf_paths[a]):
                bufs[p] = read_lines(Path(p), self.header, self.rows, False)
        return files, bufs

    def run_session(self, policy, kill_at=None, max_steps=400, kill_worker=None):
        """policy(run) -> actor to grant next (from run.enabled()).  kill_at = index of the step
        before which the session is killed (None = run to the end)."""
        if self.init_files is None:
            self.init_files, _ = self.snapshot()
        self.sessions += 1
        if self.sessions > 1:
            self.events.append({"p": MAIN, "op": "crash" if self.last_killed else "restart", "session_marker": True})
        try:
            run = SessionRun(self.scn, self.out_paths, self.header, self.rows, self.use_real_pool)
        except Hang as h:
            # the constructor phase never reached its first yield point
            self.hang = "session start: " + str(h)
            return None
        step = 0
        midwrite: dict = {}
        last_read: dict = {}
        try:
            while not run.finished():
                if kill_at is not None and step == kill_at:
                    run.kill()
                    break
                en = run.enabled()
                if not en:
                    blocked = {a: run.pending[a][0] for a in run.pending}
                    self.deadlock = {"blocked": blocked, "lock_owner": dict(run.lock_owner), "step": len(self.events),
                                     "state": {str(k): v for k, v in run.state.items()}}
                    run.kill()
                    break
                a = policy(run, en)
                op = run.grant(a)
                self.schedule.append(a)
                if kill_worker is not None and (a, op) == tuple(kill_worker) and a in run.pids:
                    run.kill_worker(a)
                    kill_worker = None
                if op.startswith("acqfail_"):
                    step += 1
                    if step > max_steps:
                        raise Hang("session exceeds max_steps")
                    continue
                for ev in run.events[-1:]:
                    path = ev.get("path")
                    if path and op.endswith("_buf"):
                        known = [g for g in self.scn.aggs if path in self.buf_paths.get(g, ())]
                        if not known:
                            agg = self.scn.calls[a - 1]["agg"] if a != MAIN else self._ctor_agg(run)
                            self.buf_paths.setdefault(agg, set()).add(path)
                files, bufs = self.snapshot()
                # which output files are between the two pieces of a row (split-write environment), and
                # which complete rows a statistics call had in front of it when it read the file
                if a != MAIN:
                    out_a = "out_" + self.scn.calls[a - 1]["agg"]
                    if op == "part_out":
                        midwrite[a] = out_a
                    elif op == "close_a_out":
                        midwrite.pop(a, None)
                    elif op == "read_out":
                        last_read[a] = [x for x in files.get(out_a, {"ls": []})["ls"] if not (x.startswith("~") or x.startswith("TORN:"))]
                for sn in run.snaps:
                    if "seen" not in sn:
                        # (no read observed - the file was read some other way: no constraint)
                        sn["seen"] = list(last_read[sn.get("actor")]) if sn.get("actor") in last_read else list(sn["rows"])
                self.events.append({"p": a, "op": op, "files": files, "bufs": bufs,
                                    "snaps": [dict(x) for x in list(self.snaps) + list(run.snaps)], "mid": sorted(set(midwrite.values())),
                                    "failed": len([s for a_, s in run.status.items() if a_ != MAIN and s.startswith("err")])})
                step += 1
                if step > max_steps:
                    raise Hang("session exceeds max_steps")
        except Hang as h:
            self.hang = str(h)
            run.kill()
        finally:
            run.close()
        self.snaps += run.snaps
        self.anomalies += [dict(x, session=self.sessions) for x in run.anomalies]
        for a, s in run.status.items():
            if s.startswith("err"):
                self.failed_calls.append((self.sessions, a, s))
        if run.main_error:
            self.failed_calls.append((self.sessions, MAIN, run.main_error[0]))
        self.last_killed = bool(run.killed)
        if run.killed and self.events:
            self.events[-1]["_killed"] = True
        elif not run.killed and self.events and not self.deadlock and not self.hang and not run.main_error:
            self.ends.append(len(self.events))
        if run.main_error:
            self.ctor_failed = True
        return run

    def _ctor_agg(self, run):
        # which aggregator the main thread is constructing / exiting: by counting register events
        n = sum(1 for e in run.events if e["op"] == "atexit_register")
        return self.scn.aggs[min(n, len(self.scn.aggs) - 1)]

    # -- conversion to the trace formats of the specifications ----------------------------
    def own_buffer(self):
        paths = [frozenset(self.buf_paths.get(a, ())) for a in self.scn.aggs]
        if len(self.scn.aggs) < 2:
            return True
        return len(set().union(*paths)) >= len([p for p in paths if p]) and all(
            not (paths[i] & paths[j]) for i in range(len(paths)) for j in range(i + 1, len(paths)))

    def model_files(self, ev, own):
        files = dict(ev["files"])
        for a in self.scn.aggs:
            name = "buf_" + a if own else "buf"
            cands = sorted(self.buf_paths.get(a, ()))
            val = {"ex": False, "ls": []}
            for p in cands:
                if p in ev["bufs"]:
                    val = ev["bufs"][p]
            files[name] = val
        return files

    def strict_trace(self):
        own = self.own_buffer()
        evs = []
        last_files = None
        for ev in self.events:
            if ev.get("session_marker") and last_files is None:
                init = dict(self.init_files or {})
                for a in self.scn.aggs:
                    init["buf_" + a if own else "buf"] = {"ex": False, "ls": []}
                last_files = init
            if ev.get("session_marker"):
                evs.append({"p": MAIN, "op": ev["op"], "files": last_files})
                continue
            last_files = self.model_files(ev, own)
            evs.append({"p": ev["p"], "op": ev["op"], "files": last_files})
        # a marker before any event cannot happen (markers are only inserted between sessions)
        return {"ev": evs}, own

    def obs_trace(self):
        evs = []
        idx_map = {}
        for i, ev in enumerate(self.events):
            if ev.get("session_marker"):
                continue
            evs.append({"files": ev["files"],
                        "snaps": [{"out": s["out"], "rows": s["rows"], "seen": s.get("seen", s["rows"])} for s in ev["snaps"] if s["status"] == "ok"] or [],
                        "mid": ev.get("mid", []), "failed": ev["failed"]})
            idx_map[i + 1] = len(evs)
        ends = [idx_map.get(e, len(evs)) for e in self.ends]
        return {"outs": ["out_" + a for a in self.scn.aggs],
                "subjects": {"out_" + a: self.scn.subjects(a) for a in self.scn.aggs},
                "prior": list(self.scn.prior),
                "init": self.init_files, "ev": evs, "ends": ends or [0], "foreign": self.scn.init == "foreign",
                "ctorfailed": self.ctor_failed}

    def scen_json(self, own, header_on_empty=True, header_no_claim=True):
        init = {"absent": {"ex": False, "ls": []}, "empty": {"ex": True, "ls": []}, "header": {"ex": True, "ls": ["H"]},
                "rows": {"ex": True, "ls": ["H"] + list(self.scn.prior)}, "foreign": {"ex": True, "ls": ["X", "q"]}}[self.scn.init]
        return {"aggs": self.scn.aggs, "calls": self.scn.calls, "initout": init, "normalexit": self.scn.normal_exit,
                "headeronempty": header_on_empty, "ownbuffer": own, "headernoclaim": header_no_claim,
                "splitwrites": self.scn.split_writes}


# --------------------------------------------------------------------------------------
# policies
# --------------------------------------------------------------------------------------
def policy_random(rng: random.Random, stickiness=0.5):
    last = [None]

    def pol(run, en):
        if last[0] in en and rng.random() < stickiness:
            return last[0]
        last[0] = rng.choice(en)
        return last[0]
    return pol


def policy_script(script, fallback=None):
    """follow a list of actors; when exhausted or not enabled, fall back (lowest id first)"""
    it = iter(script)

    def pol(run, en):
        for a in it:
            if a in en:
                return a
            break
        return (fallback or (lambda r, e: e[0]))(run, en)
    return pol


def policy_sequential(run, en):
    return en[0]
