"""A small recursive-descent parser for TLA+ values as TLC prints them.

  123  -5  "str"  TRUE  FALSE  ident          -> int / str / bool / str
  {a, b}                                       -> frozenset (or list if unhashable)
  <<a, b>>                                     -> tuple
  [f |-> v, g |-> w]                           -> dict
  (k :> v @@ k2 :> v2)                         -> dict  (keys as parsed)
  a..b                                         -> tuple(range(a, b+1))
"""
from __future__ import annotations


class TlaParseError(Exception):
    pass


class _P:
    def __init__(self, s: str):
        self.s = s
        self.i = 0

    def ws(self):
        while self.i < len(self.s) and self.s[self.i] in " \t\r\n":
            self.i += 1

    def peek(self, k=1):
        self.ws()
        return self.s[self.i:self.i + k]

    def eat(self, tok):
        self.ws()
        if not self.s.startswith(tok, self.i):
            raise TlaParseError(f"expected {tok!r} at {self.i}: {self.s[self.i:self.i+40]!r}")
        self.i += len(tok)

    def value(self):
        self.ws()
        c = self.peek()
        if self.s.startswith("<<", self.i):
            self.i += 2
            items = self.items(">>")
            return tuple(items)
        if c == "{":
            self.i += 1
            items = self.items("}")
            try:
                return frozenset(items)
            except TypeError:
                return list(items)
        if c == "[":
            self.i += 1
            out = {}
            self.ws()
            if self.peek() == "]":
                self.i += 1
                return out
            while True:
                self.ws()
                j = self.i
                while self.s[self.i].isalnum() or self.s[self.i] == "_":
                    self.i += 1
                key = self.s[j:self.i]
                self.eat("|->")
                out[key] = self.value()
                self.ws()
                if self.peek() == ",":
                    self.i += 1
                    continue
                self.eat("]")
                return out
        if c == "(":
            self.i += 1
            out = {}
            while True:
                k = self.value()
                self.eat(":>")
                v = self.value()
                out[_hashable(k)] = v
                self.ws()
                if self.s.startswith("@@", self.i):
                    self.i += 2
                    continue
                self.eat(")")
                return out
        if c == '"':
            self.i += 1
            j = self.i
            buf = []
            while self.s[self.i] != '"':
                if self.s[self.i] == "\\":
                    self.i += 1
                buf.append(self.s[self.i])
                self.i += 1
            self.i += 1
            return "".join(buf)
        if c.isdigit() or c == "-":
            j = self.i
            self.i += 1
            while self.i < len(self.s) and self.s[self.i].isdigit():
                self.i += 1
            n = int(self.s[j:self.i])
            if self.s.startswith("..", self.i):
                self.i += 2
                m = self.value()
                return tuple(range(n, m + 1))
            return n
        j = self.i
        while self.i < len(self.s) and (self.s[self.i].isalnum() or self.s[self.i] in "_!"):
            self.i += 1
        word = self.s[j:self.i]
        if not word:
            raise TlaParseError(f"unexpected {self.s[self.i:self.i+30]!r} at {self.i}")
        if word == "TRUE":
            return True
        if word == "FALSE":
            return False
        return word

    def items(self, close):
        out = []
        self.ws()
        if self.s.startswith(close, self.i):
            self.i += len(close)
            return out
        while True:
            out.append(self.value())
            self.ws()
            if self.peek() == ",":
                self.i += 1
                continue
            self.eat(close)
            return out


def _hashable(k):
    if isinstance(k, dict):
        return tuple(sorted((a, _hashable(b)) for a, b in k.items()))
    if isinstance(k, list):
        return tuple(_hashable(x) for x in k)
    return k


def parse(s: str):
    p = _P(s)
    v = p.value()
    p.ws()
    if p.i != len(p.s):
        raise TlaParseError(f"trailing text at {p.i}: {p.s[p.i:p.i+40]!r}")
    return v


def as_map(v) -> dict:
    """a TLA+ function printed either as (k :> v @@ ...) or as a sequence <<v1, ..>> (domain 1..n)"""
    if isinstance(v, dict):
        return v
    if isinstance(v, tuple):
        return {i + 1: x for i, x in enumerate(v)}
    raise TlaParseError(f"not a function: {v!r}")
