"""./check <property id> [--tier quick|thorough] [--replay <path>]"""
from __future__ import annotations

import argparse
import json
import os
import sys
import traceback

from .common import Machinery, Verdict


def registry():
    from . import checks_pipeline as cp
    reg = {"C01": cp.check_C01, "C02": cp.check_C02, "C03": cp.check_C03, "C04": cp.check_C04,
           "C08": cp.check_C08, "C13": cp.check_C13, "C14": cp.check_C14}
    for modname in ("checks_metrics", "checks_rel", "checks_agg", "checks_objects", "checks_tsv"):
        try:
            mod = __import__(f"harness.{modname}", fromlist=["REGISTRY"])
            reg.update(mod.REGISTRY)
        except ModuleNotFoundError as e:
            if modname not in str(e):
                raise
    return reg


def replay(path: str) -> int:
    """Re-run exactly the recorded case: re-record it from the raw input against the current tree,
    validate the fresh trace with the same trace specification and invariants."""
    from . import replay as rp
    return rp.replay(path)


def main(argv=None) -> int:
    ap = argparse.ArgumentParser()
    ap.add_argument("prop")
    ap.add_argument("--tier", default=os.environ.get("VERIF_TIER", "quick"), choices=["quick", "thorough"])
    ap.add_argument("--replay", default=None)
    a = ap.parse_args(argv)
    if a.replay:
        try:
            return replay(a.replay)
        except Machinery as e:
            print(f"MACHINERY-ERROR replay: {e}")
            return 2
    reg = registry()
    if a.prop not in reg:
        print(f"unknown property {a.prop}; have {sorted(reg)}")
        return 2
    v = Verdict(a.prop, a.tier)
    try:
        reg[a.prop](a.tier, v)
        return v.finish()
    except Machinery as e:
        print(f"MACHINERY-ERROR property={a.prop}: {e}", flush=True)
        return 2
    except Exception:  # noqa: BLE001
        print(f"MACHINERY-ERROR property={a.prop}: harness exception", flush=True)
        traceback.print_exc()
        return 2


if __name__ == "__main__":
    sys.exit(main())
