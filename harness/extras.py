"""Coverage beyond the listed properties (DESIGN 3.4 / 13.4): parts of the library that the
specification covers in addition, attached to the check of the closest property."""
from __future__ import annotations

import random

from .common import Verdict, seed
from .drive import quiet
from .engine import run_models, validate_traces


# --------------------------------------------------------------------------------------
# InstanceLabelMap API contract (LabelMap.tla), attached to C03
# --------------------------------------------------------------------------------------
def labelmap_history(rng, n):
    from panoptica.utils.instancelabelmap import InstanceLabelMap
    m = InstanceLabelMap()
    ev = []
    for _ in range(n):
        if rng.random() < 0.5:
            ps = [rng.randint(1, 6) for _ in range(rng.choice([1, 1, 2, 3]))]
            r = rng.randint(1, 4)
            ok = True
            try:
                m.add_labelmap_entry(ps if (len(ps) > 1 or rng.random() < 0.5) else ps[0], r)
            except Exception:  # noqa: BLE001
                ok = False
            e = {"op": "add", "ps": ps, "r": r, "ok": ok, "kind": "-", "p": -1, "res": True, "resl": []}
        else:
            kind = rng.choice(["pred", "ref", "and", "or", "preds"])
            p = rng.choice([-1, rng.randint(1, 6)]) if kind in ("and", "or") else rng.randint(1, 6)
            r = rng.choice([-1, rng.randint(1, 4)]) if kind in ("and", "or") else rng.randint(1, 4)
            res, resl = True, []
            pa, ra = (None if p == -1 else p), (None if r == -1 else r)
            if kind == "pred":
                res = bool(m.contains_pred(p))
            elif kind == "ref":
                res = bool(m.contains_ref(r))
            elif kind == "and":
                res = bool(m.contains_and(pa, ra))
            elif kind == "or":
                res = bool(m.contains_or(pa, ra))
            else:
                resl = [int(x) for x in m.get_pred_labels_matched_to_ref(r)]
            e = {"op": "query", "ps": [], "r": r, "ok": True, "kind": kind, "p": p, "res": res, "resl": resl}
        e["after"] = [[int(k), int(v)] for k, v in m.get_one_to_one_dictionary().items()]
        ev.append(e)
    return {"ev": ev}


def extra_labelmap(v: Verdict, tier: str):
    rng = random.Random(seed() * 7919 + 303)
    run_models(v, [("LabelMap", "MC_LabelMap.cfg")])
    with quiet():
        recs = [labelmap_history(rng, rng.randint(3, 14)) for _ in range(150 if tier == "quick" else 3000)]
    n = validate_traces(v, "Trace_LabelMap", ["T_AddOutcome", "T_DictAfter", "T_Query", "T_Functional"], recs,
                        lambda r, c: {"extra": "InstanceLabelMap"}, what_fn=lambda r, c: "InstanceLabelMap API history",
                        spec_name="Spec")
    v.cov["extra_labelmap_histories"] = n
