"""Coverage beyond the listed properties (DESIGN 3.4 / 13.4): parts of the library that the
specification covers in addition, attached to the check of the closest property."""
from __future__ import annotations

import random

from .common import Verdict, seed
from .drive import quiet
from .engine import run_models, validate_traces


# --------------------------------------------------------------------------------------
# InstanceLabelMap API contract (LabelMap.tla), attached to C03
# --------------------------------------------------------------------------------------
def labelmap_history(rng, n):
    from panoptica.utils.instancelabelmap import InstanceLabelMap
    m = InstanceLabelMap()
    ev = []
    for _ in range(n):
        if rng.random() < 0.5:
            ps = [rng.randint(1, 6) for _ in range(rng.choice([1, 1, 2, 3]))]
            r = rng.randint(1, 4)
            ok = True
            try:
                m.add_labelmap_entry(ps if (len(ps) > 1 or rng.random() < 0.5) else ps[0], r)
            except Exception:  # noqa: BLE001
                ok = False
            e = {"op": "add", "ps": ps, "r": r, "ok": ok, "kind": "-", "p": -1, "res": True, "resl": []}
        else:
            kind = rng.choice(["pred", "ref", "and", "or", "preds"])
            p = rng.choice([-1, rng.randint(1, 6)]) if kind in ("and", "or") else rng.randint(1, 6)
            r = rng.choice([-1, rng.randint(1, 4)]) if kind in ("and", "or") else rng.randint(1, 4)
            res, resl = True, []
            pa, ra = (None if p == -1 else p), (None if r == -1 else r)
            if kind == "pred":
                res = bool(m.contains_pred(p))
            elif kind == "ref":
                res = bool(m.contains_ref(r))
            elif kind == "and":
                res = bool(m.contains_and(pa, ra))
            elif kind == "or":
                res = bool(m.contains_or(pa, ra))
            else:
                resl = [int(x) for x in m.get_pred_labels_matched_to_ref(r)]
            e = {"op": "query", "ps": [], "r": r, "ok": True, "kind": kind, "p": p, "res": res, "resl": resl}
        e["after"] = [[int(k), int(v)] for k, v in m.get_one_to_one_dictionary().items()]
        ev.append(e)
    return {"ev": ev}


def _extra(fn):
    """Extras model behaviour BEYOND the listed properties (internal APIs).  They must never turn a
    refactoring of such an API into an alarm or a machinery failure of a listed property: if the API
    they drive is gone or behaves differently the extra is skipped / reported as DRIFT."""
    import functools

    @functools.wraps(fn)
    def wrapper(v: Verdict, tier: str):
        from .common import Machinery
        try:
            return fn(v, tier)
        except Machinery:
            raise
        except Exception as e:  # noqa: BLE001
            v.notes.append(f"{fn.__name__} skipped: the internal API it drives changed ({type(e).__name__}: {str(e)[:120]})")
            print(f"DRIFT property={v.prop} {fn.__name__}: internal API changed, extra skipped ({type(e).__name__})", flush=True)
            return None
    return wrapper


@_extra
def extra_labelmap(v: Verdict, tier: str):
    rng = random.Random(seed() * 7919 + 303)
    run_models(v, [("LabelMap", "MC_LabelMap.cfg")])
    with quiet():
        recs = [labelmap_history(rng, rng.randint(3, 14)) for _ in range(150 if tier == "quick" else 3000)]
    n = validate_traces(v, "Trace_LabelMap", ["T_AddOutcome", "T_DictAfter", "T_Query", "T_Functional"], recs,
                        lambda r, c: {"extra": "InstanceLabelMap"}, what_fn=lambda r, c: "InstanceLabelMap API history",
                        spec_name="Spec", drift_clauses=("T_AddOutcome", "T_DictAfter", "T_Query", "T_Functional"))
    v.cov["extra_labelmap_histories"] = n


# --------------------------------------------------------------------------------------
# lazy metrics of PanopticaResult (ResultLazy.tla), attached to C02
# --------------------------------------------------------------------------------------
ORDER = ["num_ref_instances", "num_pred_instances", "tp", "fp", "fn", "prec", "rec", "rq", "sq", "sq_std", "pq", "sq_dsc", "sq_dsc_std",
         "pq_dsc", "sq_cldsc", "sq_cldsc_std", "pq_cldsc", "sq_assd", "sq_assd_std", "sq_rvd", "sq_rvd_std",
         "global_bin_dsc", "global_bin_iou", "global_bin_assd", "global_bin_cldsc", "global_bin_rvd"]


def lazy_history(rng, n):
    import numpy as np
    from panoptica import PanopticaResult
    from panoptica.metrics import MetricCouldNotBeComputedException
    from .rec_pipeline import METRIC, make_handler, DEFAULT_H
    from .checks_pipeline import rand_handler
    lms = ["IOU", "DSC", "clDSC", "ASSD", "RVD"]
    lists = [m for m in lms if rng.random() < 0.6]
    globs = [m for m in ["DSC", "IOU", "RVD"] if rng.random() < 0.4]
    nref, npred = rng.randint(0, 3), rng.randint(0, 3)
    tp = rng.randint(0, min(nref, npred))
    h = rand_handler(rng) if rng.random() < 0.7 else DEFAULT_H
    from .checks_pipeline import rand_handler as _rh  # noqa: F401
    scen = ("NO_INSTANCES" if nref + npred == 0 else "EMPTY_REF" if nref == 0 else "EMPTY_PRED" if npred == 0 else "NORMAL")
    sqnone = [m for m in lists if tp == 0 and h["zt"][m][scen] == "NONE"]
    arr = np.zeros((3, 3), dtype=np.uint8)
    arr[0, 0] = 1
    res = PanopticaResult(reference_arr=arr, prediction_arr=arr.copy(), num_pred_instances=npred, num_ref_instances=nref, tp=tp,
                          list_metrics={METRIC[m]: [0.5] * tp for m in lists}, edge_case_handler=make_handler(h),
                          global_metrics=[METRIC[g] for g in globs])
    ev = []
    for _ in range(n):
        if rng.random() < 0.15:
            res.calculate_all()
            e = {"op": "calc_all", "m": "-", "out": "-"}
        else:
            m = rng.choice(ORDER)
            try:
                getattr(res, m)
                out = "ok"
            except MetricCouldNotBeComputedException:
                out = "err"
            except Exception:  # noqa: BLE001
                out = "exc"
            e = {"op": "get", "m": m, "out": out}
        e["vis"] = sorted(res.to_dict().keys())
        ev.append(e)
    return {"cf": {"lists": lists, "globals": globs, "nopred": npred == 0, "noref": nref == 0, "tpzero": tp == 0, "sqnone": sqnone}, "ev": ev}


@_extra
def extra_lazy_result(v: Verdict, tier: str):
    rng = random.Random(seed() * 7919 + 202)
    run_models(v, [("MC_ResultLazy", f"MC_ResultLazy_{c}.cfg") for c in "abc"])
    import warnings
    with quiet(), warnings.catch_warnings():
        warnings.simplefilter("ignore")
        recs = [lazy_history(rng, rng.randint(3, 15)) for _ in range(200 if tier == "quick" else 4000)]
    n = validate_traces(v, "Trace_ResultLazy", ["T_Outcome", "T_Visible"], recs, lambda r, c: {"extra": "PanopticaResult-lazy-metrics"},
                        what_fn=lambda r, c: f"lazy metric history cf={r['cf']}", drift_clauses=("T_Outcome", "T_Visible"))
    v.cov["extra_lazy_result_histories"] = n


# --------------------------------------------------------------------------------------
# crop_data / uncrop_data of processing pairs (Trace_Crop.tla), attached to C10
# --------------------------------------------------------------------------------------
def crop_record(rng):
    import numpy as np
    from . import gen
    from .project import flat, rank_map, shape_of
    from panoptica import UnmatchedInstancePair, MatchedInstancePair, SemanticPair
    pred, ref = gen.rand_unmatched_pair(rng, max_vox=64)
    if rng.random() < 0.3:
        pred = np.roll(pred, rng.choice([-1, 1]), axis=rng.randrange(pred.ndim))
    dt = rng.choice([np.uint8, np.uint16, np.int32])
    cls = rng.choice([UnmatchedInstancePair, MatchedInstancePair, SemanticPair]) if dt != np.int32 else SemanticPair
    pred, ref = pred.astype(dt), ref.astype(dt)
    rmap = rank_map(pred, ref)
    rec = {"shape": shape_of(ref), "pred": flat(pred, rmap), "ref": flat(ref, rmap), "cshape": [1] * ref.ndim, "off": [0] * ref.ndim,
           "cpred": [0], "cref": [0], "upred": [], "uref": [], "out": "ok", "meta": {"cls": cls.__name__, "dtype": str(np.dtype(dt))}}
    try:
        pair = cls(pred.copy(), ref.copy())
        pair.crop_data()
        cp, cr = np.asarray(pair.prediction_arr), np.asarray(pair.reference_arr)
        rec["cshape"] = shape_of(cr)
        rec["off"] = [int(s.start) for s in pair.crop]
        rec["cpred"], rec["cref"] = flat(cp, rmap), flat(cr, rmap)
        pair.uncrop_data()
        up, ur = np.asarray(pair.prediction_arr), np.asarray(pair.reference_arr)
        if up.shape != ref.shape:
            raise ValueError("shape after uncrop differs")
        rec["upred"] = flat(up.astype(np.int64), rmap)
        rec["uref"] = flat(ur.astype(np.int64), rmap)
    except Exception as e:  # noqa: BLE001
        rec["out"] = "raise"
        rec["meta"]["exception"] = f"{type(e).__name__}: {e}"[:200]
    return rec


@_extra
def extra_crop(v: Verdict, tier: str):
    rng = random.Random(seed() * 7919 + 404)
    with quiet():
        recs = [crop_record(rng) for _ in range(300 if tier == "quick" else 5000)]
    n = validate_traces(v, "Trace_Crop", ["T_Completes", "T_CropIsSubarray", "T_NoVoxelLost", "T_UncropRestores"], recs,
                        lambda r, c: {"extra": "crop/uncrop", "cls": r["meta"]["cls"]},
                        what_fn=lambda r, c: f"crop/uncrop {r['meta']} shape={r['shape']}",
                        drift_clauses=("T_Completes", "T_CropIsSubarray", "T_NoVoxelLost", "T_UncropRestores"))
    v.cov["extra_crop_uncrop_records"] = n


# --------------------------------------------------------------------------------------
# the input contract of evaluate() (Trace_Validate.tla), attached to C01
# --------------------------------------------------------------------------------------
def validate_record(rng):
    import numpy as np
    from . import gen
    from .rec_pipeline import default_cfg, make_evaluator
    kind = rng.choice(["SEM", "UNM", "MAT"])
    pred, ref = gen.rand_unmatched_pair(rng, max_vox=36)
    dts = [np.uint8, np.uint16, np.uint32, np.uint64, np.int8, np.int32, np.int64, np.float32, np.float64, np.bool_]
    dp = rng.choice(dts)
    dr = dp if rng.random() < 0.8 else rng.choice(dts)
    pred, ref = pred.astype(dp), ref.astype(dr)
    hasneg = False
    if np.issubdtype(dp, np.signedinteger) and dp == dr and rng.random() < 0.3:
        pred = pred.copy()
        pred.flat[rng.randrange(pred.size)] = -1
        hasneg = True
    sameshape = True
    if rng.random() < 0.15:
        ref = ref[..., :-1] if ref.shape[-1] > 1 else np.concatenate([ref, ref], axis=-1)
        sameshape = False
    isarray = True
    args = [pred, ref]
    if rng.random() < 0.08:
        args[rng.randrange(2)] = args[0].tolist()
        isarray = False

    def dclass(d):
        d = np.dtype(d)
        return "bool" if d == np.bool_ else "uint" if np.issubdtype(d, np.unsignedinteger) else "int" if np.issubdtype(d, np.signedinteger) else "float"
    rec = {"kind": kind, "sameshape": sameshape, "samedtype": np.dtype(dp) == np.dtype(dr), "dclass": dclass(dp), "hasneg": hasneg,
           "isarray": isarray, "out": "ok", "meta": {"dtypes": [str(np.dtype(dp)), str(np.dtype(dr))], "shapes": [list(pred.shape), list(ref.shape)]}}
    try:
        import warnings
        with quiet(), warnings.catch_warnings():
            warnings.simplefilter("ignore")
            make_evaluator(default_cfg(input=kind)).evaluate(args[0], args[1], verbose=False)
    except Exception as e:  # noqa: BLE001
        rec["out"] = "raise"
        rec["meta"]["exception"] = f"{type(e).__name__}: {e}"[:160]
    return rec


@_extra
def extra_input_contract(v: Verdict, tier: str):
    rng = random.Random(seed() * 7919 + 505)
    recs = [validate_record(rng) for _ in range(300 if tier == "quick" else 5000)]
    n = validate_traces(v, "Trace_Validate", ["T_ValidAccepted", "T_InvalidRejected"], recs,
                        lambda r, c: {"extra": "input-contract", "kind": r["kind"], "dclass": r["dclass"], "out": r["out"]},
                        what_fn=lambda r, c: f"input contract {r['kind']} {r['meta']}", drift_clauses=("T_InvalidRejected",))
    v.cov["extra_input_contract_records"] = n


# --------------------------------------------------------------------------------------
# LabelGroup / SegmentationClassGroups construction rules (Groups.tla), attached to C12
# --------------------------------------------------------------------------------------
def groups_record(rng):
    import numpy as np
    from panoptica.utils import LabelGroup, LabelMergeGroup, SegmentationClassGroups
    arr = np.array([rng.choice([0, 0, 1, 2, 3, 4, 5, 9]) for _ in range(8)], dtype=np.uint8)
    if rng.random() < 0.5:
        labels = [rng.choice([-1, 0, 1, 2, 2, 3, 5]) for _ in range(rng.randint(0, 3))]
        if rng.random() < 0.6:
            # a wider universe: 3-5 labels below 26 in any order (interleaved with labels outside the
            # group, near-contiguous runs with one outlier), the array drawn from the same range
            base = rng.randint(1, 12)
            n = rng.randint(3, 5)
            labels = [base + i for i in range(n)]
            for _ in range(rng.randint(0, 2)):
                labels[rng.randrange(n)] = rng.randint(1, 25)
            rng.shuffle(labels)
            arr = np.array([rng.choice([0] + list(range(max(0, base - 2), min(26, base + n + 10)))) for _ in range(12)], dtype=np.uint8)
        single, merge = rng.random() < 0.4, rng.random() < 0.4
        rec = {"kind": "group", "labels": labels, "single": single, "merge": merge, "out": "ok", "rlabels": [], "arr": arr.tolist(), "ext": [],
               "entries": [], "keys": [], "glabels": [], "gsingle": [], "defined": True}
        try:
            g = (LabelMergeGroup if merge else LabelGroup)(list(labels), single_instance=single)
            rec["rlabels"] = [int(x) for x in g.value_labels]
            rec["ext"] = [int(x) for x in g(arr)]
        except Exception as e:  # noqa: BLE001
            rec["out"] = "raise"
            rec["meta"] = {"exception": f"{type(e).__name__}"}
        return rec
    n = rng.randint(1, 4)
    names = [rng.choice(["a", "A", "b", "Bone", "bone", "x y", "L-1"]) for _ in range(n)]
    entries, arg = [], {}
    for nm in names:
        labs = sorted(set(rng.choice([1, 2, 3, 4, 5]) for _ in range(rng.randint(1, 2))))
        single = len(labs) == 1 and rng.random() < 0.3
        merge = rng.random() < 0.3
        form = rng.random()
        if form < 0.5 or merge:
            arg[nm] = (LabelMergeGroup if merge else LabelGroup)(labs, single_instance=single)
        else:
            arg[nm] = (labs, single)        # the tuple form
        entries.append({"name": nm.lower(), "labels": labs, "single": single, "merge": merge and form < 2})
    # a dict keeps the LAST value of a repeated key, at the FIRST key's position: mirror what was passed
    passed = []
    for nm, val in arg.items():
        e = next(x for x in reversed(entries) if x["name"] == nm.lower() and True)
        passed.append((nm, val))
    entries = []
    for nm, val in arg.items():
        if isinstance(val, tuple):
            entries.append({"name": nm.lower(), "labels": list(val[0]), "single": bool(val[1]), "merge": False})
        else:
            entries.append({"name": nm.lower(), "labels": [int(x) for x in val.value_labels], "single": bool(val.single_instance), "merge": isinstance(val, LabelMergeGroup)})
    rec = {"kind": "groups", "labels": [], "single": False, "merge": False, "out": "ok", "rlabels": [], "arr": arr.tolist(), "ext": [],
           "entries": entries, "keys": [], "glabels": [], "gsingle": [], "defined": True}
    try:
        gs = SegmentationClassGroups(arg)
        rec["keys"] = list(gs.keys())
        rec["glabels"] = [[int(x) for x in gs[k].value_labels] for k in gs.keys()]
        rec["gsingle"] = [bool(gs[k].single_instance) for k in gs.keys()]
        rec["defined"] = bool(gs.has_defined_labels_for(arr))
    except Exception as e:  # noqa: BLE001
        rec["out"] = "raise"
        rec["meta"] = {"exception": f"{type(e).__name__}: {e}"[:120]}
    return rec


def exhaustive_group_records(top: int):
    """Every label set of size 1..3 over 1..top (and of size 4 over 1..12), as a plain and as a merge
    group, applied to an array that holds every value 0..top+2 once."""
    import itertools
    import numpy as np
    from panoptica.utils import LabelGroup, LabelMergeGroup
    arr = np.arange(0, top + 3, dtype=np.uint8)
    recs = []
    sets = [c for k in (1, 2, 3) for c in itertools.combinations(range(1, top + 1), k)]
    sets += list(itertools.combinations(range(1, 13), 4))
    with quiet():
        for labs in sets:
            for merge in (False, True):
                rec = {"kind": "group", "labels": list(labs), "single": False, "merge": merge, "out": "ok", "rlabels": [], "arr": arr.tolist(),
                       "ext": [], "entries": [], "keys": [], "glabels": [], "gsingle": [], "defined": True}
                try:
                    g = (LabelMergeGroup if merge else LabelGroup)(list(labs), single_instance=False)
                    rec["rlabels"] = [int(x) for x in g.value_labels]
                    rec["ext"] = [int(x) for x in g(arr)]
                except Exception as e:  # noqa: BLE001
                    rec["out"] = "raise"
                    rec["meta"] = {"exception": f"{type(e).__name__}"}
                recs.append(rec)
    return recs


@_extra
def extra_groups(v: Verdict, tier: str):
    rng = random.Random(seed() * 7919 + 606)
    with quiet():
        recs = [groups_record(rng) for _ in range(1500 if tier == "quick" else 12000)]
    recs += exhaustive_group_records(20 if tier == "quick" else 28)
    for r in recs:
        r.setdefault("meta", {})
    # T_GroupExtract (what a group selects from an array) is what C12 is about; the construction rules are not
    n = validate_traces(v, "Trace_Groups", ["T_GroupExtract", "T_GroupValidity", "T_GroupLabels", "T_GroupsKeys", "T_GroupsContent", "T_GroupsDefined"],
                        recs, lambda r, c: {"extra": "class-group construction", "kind": r["kind"]},
                        drift_clauses=("T_GroupValidity", "T_GroupLabels", "T_GroupsKeys", "T_GroupsContent", "T_GroupsDefined"), what_fn=lambda r, c: f"class groups {r['kind']} {r.get('entries') or r.get('labels')}")
    v.cov["extra_group_construction_records"] = n
