"""Driving the real panoptica code from the harness.

* importing panoptica quietly (citation reminder off, prints swallowed)
* substituting a serial pool for multiprocessing.Pool in the two modules that fan out
  per-instance work (bulk conformance runs: 0.16 s -> 1.6 ms per evaluation); C15 runs
  seeded subsets through the real Pool as well
"""
from __future__ import annotations

import contextlib
import io
import os
import sys
import warnings

os.environ.setdefault("PANOPTICA_CITATION_REMINDER", "false")
warnings.filterwarnings("ignore")

with contextlib.redirect_stdout(io.StringIO()):
    import numpy as np  # noqa: F401
    import panoptica  # noqa: F401
    import panoptica._functionals as _functionals
    import panoptica.instance_evaluator as _instance_evaluator


import random as _random

_POOL_RNG = _random.Random(12345)


class _Done:
    def __init__(self, v):
        self._v = v

    def get(self, timeout=None):
        return self._v

    def wait(self, timeout=None):
        return None

    def ready(self):
        return True

    def successful(self):
        return True


class SerialPool:
    """Stands in for multiprocessing.Pool(): same starmap contract, executed in-process."""

    def __init__(self, *a, **k):
        pass

    def __enter__(self):
        return self

    def __exit__(self, *a):
        return False

    def starmap(self, f, it, chunksize=None):
        return [f(*args) for args in it]

    def map(self, f, it, chunksize=None):
        return [f(x) for x in it]

    def terminate(self):
        pass

    def imap(self, f, it, chunksize=1):
        return iter([f(x) for x in it])

    def imap_unordered(self, f, it, chunksize=1):
        # completion order is not the submission order
        items = list(it)
        order = list(range(len(items)))
        _POOL_RNG.shuffle(order)
        return iter([f(items[i]) for i in order])

    def starmap_async(self, f, it, *a, **k):
        return _Done([f(*args) for args in it])

    def map_async(self, f, it, *a, **k):
        return _Done([f(x) for x in it])

    def apply_async(self, f, args=(), kwds=None, *a, **k):
        return _Done(f(*args, **(kwds or {})))

    def apply(self, f, args=(), kwds=None):
        return f(*args, **(kwds or {}))

    def close(self):
        pass

    def join(self):
        pass

    def terminate(self):
        pass


_REAL = {}


def use_serial_pool() -> bool:
    """Returns False if the attribute is not there (refactor): then the code's own way is used."""
    ok = False
    for mod in (_functionals, _instance_evaluator):
        if hasattr(mod, "Pool"):
            _REAL.setdefault(mod.__name__, mod.Pool)
            mod.Pool = SerialPool
            ok = True
    return ok


def use_real_pool() -> None:
    for mod in (_functionals, _instance_evaluator):
        if mod.__name__ in _REAL:
            mod.Pool = _REAL[mod.__name__]


@contextlib.contextmanager
def quiet():
    with contextlib.redirect_stdout(io.StringIO()):
        yield


class CallTimeout(Exception):
    """the code under test did not come back: an observation (recorded like any other exception)"""


@contextlib.contextmanager
def time_limit(seconds: int = 180):
    """Bound the time one call of the code under test may take (SIGALRM, main thread only): a call
    that loops or blocks forever becomes the observation "did not return" instead of a check that
    never ends."""
    import signal
    import threading
    if threading.current_thread() is not threading.main_thread():
        yield
        return

    def on_alarm(*a):
        raise CallTimeout(f"the call did not return within {seconds} s")
    old = signal.signal(signal.SIGALRM, on_alarm)
    prev = signal.alarm(seconds)
    try:
        yield
    finally:
        signal.alarm(0)
        signal.signal(signal.SIGALRM, old)
        if prev:
            signal.alarm(prev)


@contextlib.contextmanager
def mem_limit(gb: float = 6.0, seconds: int = 180):
    """Lower the soft address-space limit while the real code runs, so that an allocation
    proportional to a label VALUE (not to the array size) surfaces as MemoryError in the code
    under test - an observation - instead of exhausting the machine.  Restored afterwards
    (the TLC subprocess needs the full address space)."""
    import resource
    soft, hard = resource.getrlimit(resource.RLIMIT_AS)
    try:
        resource.setrlimit(resource.RLIMIT_AS, (int(gb * 2**30), hard))
        with time_limit(seconds):
            yield
    finally:
        resource.setrlimit(resource.RLIMIT_AS, (soft, hard))
