"""Checks C01, C02, C03, C04, C08, C13, C14: the evaluation pipeline (Pipeline.tla / PipelineOps.tla)."""
from __future__ import annotations

import itertools
import json
import random

import numpy as np

from . import drive, gen
from .common import Verdict, seed
from .engine import corrupt_self_test, run_models, self_test_models, validate_traces
from .rec_pipeline import DEFAULT_H, default_cfg, rec_evaluate, rec_match

C03_CLAUSES = ["T_Terminates", "T_PredFunctional", "T_RefInjective", "T_PairsOverlap", "T_PairsBeat",
               "T_Maximal", "T_Stable", "T_LabelMapAllowed", "T_Monotone"]
# T_PairsOverlap / T_LabelMapAllowed belong to C04 as well: an unmatched prediction that receives a
# reference label shows up as an exhibited pair that no allowed matching contains
C04_CLAUSES = ["T_RefUnchanged", "T_FgPreserved", "T_NoSplit", "T_FreshDistinct", "T_MatchedCarryRef", "T_PairsOverlap",
               "T_LabelMapAllowed"]
C14_CLAUSES = ["T_Terminates", "T_PredFunctional", "T_PairsOverlap", "T_SeededBySingle", "T_FinalAtLeastSeed",
               "T_LabelMapAllowed"]
EVAL_C01 = ["T_Completes", "T_Counts", "T_Tp", "T_FpFn", "T_Lists", "T_Rq", "T_Sq", "T_Std", "T_Ambiguous"]
EVAL_C02 = ["T_BookCounts", "T_BookLists", "T_BookRq", "T_BookSq", "T_BookStd", "T_BookPq", "T_BookRanges", "T_BookDecision",
            "T_Counts", "T_Tp", "T_FpFn"]
EVAL_C08 = ["T_Completes", "T_Counts", "T_Tp", "T_FpFn", "T_ZeroTpSq", "T_ZeroTpStd"]
EVAL_C13 = ["T_Completes", "T_Global"]

MODELS_QUICK = [("MC_Pipeline", "MC_Pipeline_quick.cfg")]
# thorough: all 37 configurations on 2x2 with labels 0..2 (2.4 M states), the small configuration set on
# 2x3 (labels 0..2), 2x2x2 (labels 0..1) and all configurations on 1x5
MODELS_THOROUGH = [("MC_Pipeline", "MC_Pipeline_thoroughall.cfg"), ("MC_Pipeline", "MC_Pipeline_thorough1d.cfg"),
                   ("MC_Pipeline", "MC_Pipeline_thorough3d.cfg"), ("MC_Pipeline", "MC_Pipeline_thorough.cfg")]


def _exc(rec):
    e = rec["meta"].get("exception", "")
    return e.split(":")[0] + (":already-assigned" if "already assigned differently" in e else "")


def site_match(rec, clause):
    return {"matcher": rec["matcher"], "mm": rec["mm"], "layout": rec["meta"].get("layout", "C"), "direction": "decreasing" if rec["mm"] in ("ASSD", "RVD") else "increasing",
            "dtype": rec["meta"].get("dtype"), "out": rec["out"], "exc": _exc(rec), "gen": rec["meta"].get("gen", "")}


def site_eval(rec, clause):
    c = rec["cfg"]
    res = rec.get("res") or {}
    return {"input": c["input"], "matcher": c["matcher"], "mm": c["mm"], "dm": c["dm"],
            "decision": "none" if c["dm"] == "NONE" else "set",
            "direction": "decreasing" if c["mm"] in ("ASSD", "RVD") else "increasing",
            "dtype": rec["meta"].get("dtype"), "out": rec["out"], "exc": _exc(rec),
            "pred_empty": not any(rec["pred"]), "ref_empty": not any(rec["ref"]),
            "gen": rec["meta"].get("gen", "")}


def what_eval(rec, clause):
    c = rec["cfg"]
    return f"input={c['input']} matcher={c['matcher']}/{c['mm']}>={c['thr']} decision={c['dm']}/{c['dthr']} shape={rec['shape']}"


def what_match(rec, clause):
    return f"matcher={rec['matcher']}/{rec['mm']} thr={rec['thr']} shape={rec['shape']} dtype={rec['meta'].get('dtype')} {rec['meta'].get('exception', '')[:80]}"


def _nontrivial_pair(pr, rf):
    return any(p and r for p, r in zip(pr, rf))


def _count_cov(v: Verdict, recs, keyf, nontriv):
    seen = set()
    for r in recs:
        if nontriv(r):
            seen.add(keyf(r))
    v.cov["evaluations"] += len(recs)
    v.cov["distinct_nontrivial"] += len(seen)


def _sample(v: Verdict, recs, n=3):
    for r in recs[:: max(1, len(recs) // n)][:n]:
        v.cov["samples"].append({k: r[k] for k in r if k not in ("meta", "h")})


# --------------------------------------------------------------------------------------
# generators of matcher traces
# --------------------------------------------------------------------------------------
MATCH_CFGS = ([(k, m, t) for k in ("naive", "m2o") for m in ("IOU", "DSC") for t in gen.THRESHOLDS]
              + [(k, "ASSD", t) for k in ("naive", "m2o") for t in gen.ASSD_THRESHOLDS])
MERGE_CFGS = ([("merge", m, t) for m in ("IOU", "DSC") for t in gen.THRESHOLDS]
              + [("merge", "ASSD", t) for t in gen.ASSD_THRESHOLDS])


def _stricter(mm, thr):
    ths = gen.ASSD_THRESHOLDS if mm == "ASSD" else gen.THRESHOLDS
    if mm == "ASSD":
        return [t for t in sorted(ths, key=lambda x: -x[0] / x[1]) if t[0] / t[1] < thr[0] / thr[1]]
    return [t for t in sorted(ths, key=lambda x: x[0] / x[1]) if t[0] / t[1] > thr[0] / thr[1]]


def gen_match_records(rng, tier, cfgs, n_random, exhaustive_shapes, with_chain=True, dims=(1, 2, 3), max_vox=48,
                      splitty=False):
    recs = []
    i = 0
    for shape, k in exhaustive_shapes:
        arrs = list(gen.all_arrays(shape, k))
        for pred in arrs:
            if not pred.any():
                continue
            for ref in arrs:
                if not ref.any():
                    continue
                kind, mm, thr = cfgs[i % len(cfgs)]
                i += 1
                chain = _stricter(mm, thr) if with_chain and kind != "merge" else []
                recs.append(rec_match(pred, ref, kind, mm, thr, chain=chain, meta={"gen": f"exhaustive{shape}"}))
    for _ in range(n_random):
        pred, ref = gen.rand_unmatched_pair(rng, max_vox=max_vox, dims=dims, max_inst=4)
        if not pred.any() or not ref.any():
            continue
        if splitty and rng.random() < 0.7:
            # references covered by several fragments
            pred = gen.derive_prediction(rng, ref)
            frag = np.zeros_like(pred)
            nxt = 1
            for lab in [int(x) for x in np.unique(pred) if x != 0]:
                idx = np.argwhere(pred == lab)
                cut = rng.randint(1, max(1, len(idx) - 1)) if len(idx) > 1 and rng.random() < 0.8 else len(idx)
                for j, p in enumerate(idx):
                    frag[tuple(p)] = nxt if j < cut else nxt + 1
                nxt += 2
            pred = frag
            if not pred.any():
                continue
        kind, mm, thr = rng.choice(cfgs)
        if rng.random() < 0.3:
            # a threshold exactly at one of the candidate scores
            thr = _score_threshold(rng, pred, ref, mm) or thr
        chain = _stricter(mm, thr) if with_chain and kind != "merge" and thr in (gen.ASSD_THRESHOLDS + gen.THRESHOLDS) else []
        from .rec_pipeline import LAYOUTS
        layout = rng.choice(LAYOUTS) if rng.random() < 0.35 else "C"
        history = ()
        if rng.random() < 0.2:
            # the same pair object was matched before, with another metric / matcher / threshold
            history = tuple((hk, hm, tuple(ht)) for hk, hm, ht in rng.sample(cfgs, min(len(cfgs), rng.randint(1, 2))))
        recs.append(rec_match(pred, ref, kind, mm, tuple(thr), chain=chain, meta={"gen": "random" + ("+history" if history else "")},
                              layout=layout, history=history))
    return recs


def _score_threshold(rng, pred, ref, mm):
    """exact rational score of a random overlapping pair (IoU/Dice), so equality is exercised"""
    if mm == "ASSD":
        return None
    pairs = {(int(r), int(p)) for r, p in zip(ref.ravel(), pred.ravel()) if r and p}
    if not pairs:
        return None
    r, p = rng.choice(sorted(pairs))
    R, P = ref == r, pred == p
    inter = int((R & P).sum())
    if mm == "IOU":
        n, d = inter, int((R | P).sum())
    else:
        n, d = 2 * inter, int(R.sum() + P.sum())
    from math import gcd
    g = gcd(n, d)
    return (n // g, d // g)


def gen_dtype_boundary_records(rng, n):
    """C04: (largest reference label + number of unmatched predictions) crosses the dtype maximum."""
    recs = []
    # (dtype, value next to which the largest reference label sits).  uint64 labels within
    # #unmatched of 2^64 are excluded: max(ref)+k numbering cannot be represented there at all.
    plans = [(np.uint8, 255), (np.uint16, 65535), (np.uint32, 2**32 - 1), (np.uint64, 2**63),
             (np.uint16, 255), (np.uint32, 65535), (np.uint64, 65535), (np.uint64, 2**32 - 1), (np.uint32, 255)]
    for i in range(n):
        dtype, mx = plans[i % len(plans)]
        n_un = rng.randint(2, 9)
        n_ref = rng.randint(1, 3)
        size = 2 * (n_un + n_ref) + 4
        shape = (size,) if rng.random() < 0.5 else (2, size // 2 + 1)
        ref = np.zeros(shape, dtype=object)
        pred = np.zeros(shape, dtype=object)
        free = list(np.ndindex(*shape))
        rng.shuffle(free)
        top = mx - rng.randint(0, max(0, n_un - 2))       # largest reference label close to the maximum
        ref_labels = [top - j * rng.randint(1, 3) for j in range(n_ref)]
        pred_labels = rng.sample(range(1, 200), n_un + n_ref)
        if rng.random() < 0.35 and mx < 2**63:
            # a prediction label that is the complement of the largest reference label to the dtype's modulus
            # (label arithmetic in the array's own dtype would turn it into background or into another label)
            comp = (mx + 1 - top) if rng.random() < 0.6 else (mx + 1 - top) + rng.randint(1, 3)
            if comp >= 1 and comp not in pred_labels:
                pred_labels[-1] = comp
        overlap_p = 0.0 if rng.random() < 0.3 else 0.7      # sometimes nothing overlaps at all: nothing is matched
        for j, rl in enumerate(ref_labels):
            p = free.pop()
            ref[p] = rl
            if rng.random() < overlap_p:
                pred[p] = pred_labels[j]                   # overlapping prediction
        for j in range(n_un):
            p = free.pop()
            pred[p] = pred_labels[n_ref + j]               # predictions that overlap nothing
        kind, mm, thr = rng.choice(MATCH_CFGS + MERGE_CFGS)
        recs.append(rec_match(np.array(pred.tolist(), dtype=dtype), np.array(ref.tolist(), dtype=dtype), kind, mm, thr,
                              dtype=dtype, meta={"gen": "dtype-boundary"}))
    # mixed magnitudes: every prediction matched to a SMALL reference label, plus unmatched references
    # whose labels are large (multiples of 2^8 / 2^16, or congruent to a small label modulo those)
    for i in range(n // 2):
        dtype = [np.uint16, np.uint32, np.uint64][i % 3]
        size = 12
        ref = np.zeros(size, dtype=object)
        pred = np.zeros(size, dtype=object)
        small = rng.sample(range(1, 200), 2)
        big_pool = [256, 512, 256 + small[0], 65536 if dtype != np.uint16 else 1024, 65536 + small[1] if dtype != np.uint16 else 768,
                    2**24 if dtype != np.uint16 else 2**15]
        bigs = rng.sample(big_pool, rng.randint(1, 2))
        pos = list(range(size))
        rng.shuffle(pos)
        for j, lab in enumerate(small):
            p = pos.pop()
            ref[p] = lab
            pred[p] = rng.randint(1, 200)
            while list(pred).count(pred[p]) > 1:
                pred[p] = rng.randint(1, 200)
        for lab in bigs:
            ref[pos.pop()] = lab
        kind, mm, thr = rng.choice(MATCH_CFGS + MERGE_CFGS)
        recs.append(rec_match(np.array(pred.tolist(), dtype=dtype), np.array(ref.tolist(), dtype=dtype), kind, mm, thr,
                              dtype=dtype, meta={"gen": "mixed-magnitude"}))
    return recs


def check_C03(tier: str, v: Verdict):
    drive.use_serial_pool()
    rng = random.Random(seed() * 7919 + 3)
    run_models(v, MODELS_QUICK if tier == "quick" else MODELS_THOROUGH)
    if tier == "quick":
        recs = gen_match_records(rng, tier, MATCH_CFGS, 1500, [((4,), 2)])
        recs += [r for r in gen_dtype_boundary_records(rng, 300) if r["matcher"] != "merge"]
    else:
        self_test_models(v, [("MC_Pipeline", "MC_Pipeline_legacy_merge.cfg", "MergeImproves")])
        recs = gen_match_records(rng, tier, MATCH_CFGS, 20000, [((4,), 2), ((2, 2), 2), ((5,), 2)])
        recs += [r for r in gen_dtype_boundary_records(rng, 3000) if r["matcher"] != "merge"]
    _count_cov(v, recs, lambda r: (tuple(r["shape"]), tuple(r["pr"]), tuple(r["rf"]), r["matcher"], r["mm"], tuple(r["thr"])),
               lambda r: _nontrivial_pair(r["pr"], r["rf"]))
    v.cov["rule"] = ("unmatched instance pairs: exhaustive small grids + seeded random boxes/blobs/splits/merges, each with a "
                     "matcher config and a chain of stricter thresholds; distinct by (shape, arrays, matcher, metric, threshold); "
                     "non-trivial = at least one overlapping candidate pair")
    _sample(v, recs)
    validate_traces(v, "Trace_Match", C03_CLAUSES, recs, site_match, what_fn=what_match)
    from .extras import extra_labelmap
    extra_labelmap(v, tier)
    if tier == "thorough":
        good = next(r for r in recs if r["out"] == "ok" and any(r["mp"]) and r["matcher"] == "naive")
        def corrupt(r):
            # swap two matched labels in the returned prediction -> a pair that does not overlap / beat
            r["mp"] = [0 if x else max(r["rf"]) for x in r["mp"]]
            return r
        corrupt_self_test(v, "Trace_Match", C03_CLAUSES + C04_CLAUSES, good, corrupt)
    v.assumptions += ["TLC, CommunityModules", "projection: joint order-preserving rank renaming of labels, C-order flattening",
                      "thresholds are small rationals p/q handed to the code as the float p/q"]


def check_C04(tier: str, v: Verdict):
    drive.use_serial_pool()
    rng = random.Random(seed() * 7919 + 4)
    run_models(v, MODELS_QUICK if tier == "quick" else MODELS_THOROUGH)
    n = 1200 if tier == "quick" else 12000
    recs = gen_match_records(rng, tier, MATCH_CFGS + MERGE_CFGS, n, [((4,), 2)] if tier == "quick" else [((4,), 2), ((2, 2), 2)],
                             with_chain=False)
    recs += gen_dtype_boundary_records(rng, 400 if tier == "quick" else 4000)
    # raises are C03's business (termination); C04 speaks about returned arrays
    recs_ok = [r for r in recs if r["out"] == "ok"]
    _count_cov(v, recs_ok, lambda r: (tuple(r["shape"]), tuple(r["pr"]), tuple(r["rf"]), r["matcher"], r["mm"], tuple(r["thr"]), r["meta"]["dtype"]),
               lambda r: any(r["pr"]))
    v.cov["rule"] = ("unmatched pairs x all matchers; plus dtype-boundary generator (uint8/16/32/64 with reference labels next to the "
                     "dtype maximum and several unmatched predictions); distinct by (arrays, matcher, metric, threshold, dtype); "
                     "non-trivial = prediction non-empty")
    v.cov["calls_that_raised"] = len(recs) - len(recs_ok)
    _sample(v, [r for r in recs_ok if r["meta"].get("gen") == "dtype-boundary"][:50] + recs_ok[:50])
    validate_traces(v, "Trace_Match", C04_CLAUSES, recs_ok, site_match, what_fn=what_match)
    v.assumptions += ["TLC, CommunityModules", "rank renaming preserves equality/distinctness of labels, which is all C04 speaks about"]


def gen_fragment_records(rng, n):
    """C14: one or two references, each covered by 3-6 prediction fragments with arbitrary inside/outside
    proportions (so that some merges are accepted, some rejected, in every order of single scores)."""
    recs = []
    for _ in range(n):
        L = rng.randint(30, 60)
        ref = np.zeros(L, dtype=np.int64)
        pred = np.zeros(L, dtype=np.int64)
        nref = rng.choice([1, 1, 2])
        free = list(range(L))
        nxt = 1
        for r in range(1, nref + 1):
            size = rng.randint(8, 18)
            start = rng.randint(0, L - size) if r == 1 else None
            if r == 1:
                pos = list(range(start, start + size))
            else:
                cand = [i for i in free if ref[i] == 0]
                if len(cand) < 6:
                    break
                st = rng.choice(cand[: max(1, len(cand) - 6)])
                pos = [i for i in range(st, min(L, st + rng.randint(4, 10))) if ref[i] == 0]
            for i in pos:
                ref[i] = r
            inside = [i for i in pos]
            rng.shuffle(inside)
            k = rng.randint(3, 6)
            for f in range(k):
                a = rng.randint(1, max(1, len(inside) // 2)) if inside else 0
                take = [inside.pop() for _ in range(min(a, len(inside)))]
                outside_pool = [i for i in range(L) if ref[i] == 0 and pred[i] == 0]
                b = rng.choice([0, 0, 1, 2, 3, 5])
                take += rng.sample(outside_pool, min(b, len(outside_pool)))
                if not take:
                    continue
                for i in take:
                    if pred[i] == 0:
                        pred[i] = nxt
                nxt += 1
        if not pred.any() or not ref.any():
            continue
        kind, mm, thr = rng.choice(MERGE_CFGS)
        if rng.random() < 0.5 and mm != "ASSD":
            thr = _score_threshold(rng, pred, ref, mm) or thr
        recs.append(rec_match(pred, ref, "merge", mm, tuple(thr), meta={"gen": "fragments"}))
    return recs


def check_C14(tier: str, v: Verdict):
    drive.use_serial_pool()
    rng = random.Random(seed() * 7919 + 14)
    run_models(v, MODELS_QUICK if tier == "quick" else MODELS_THOROUGH)
    if tier == "thorough":
        self_test_models(v, [("MC_Pipeline", "MC_Pipeline_legacy_merge.cfg", "MergeImproves")])
    recs = gen_match_records(rng, tier, MERGE_CFGS, 1500 if tier == "quick" else 15000,
                             [((4,), 2)] if tier == "quick" else [((4,), 2), ((2, 2), 2), ((5,), 2)],
                             with_chain=False, splitty=True, max_vox=36)
    recs += gen_fragment_records(rng, 600 if tier == "quick" else 8000)
    _count_cov(v, recs, lambda r: (tuple(r["shape"]), tuple(r["pr"]), tuple(r["rf"]), r["mm"], tuple(r["thr"])),
               lambda r: _nontrivial_pair(r["pr"], r["rf"]))
    v.cov["rule"] = ("unmatched pairs with references covered by several prediction fragments x {IoU, Dice, ASSD} x thresholds; "
                     "distinct by (arrays, metric, threshold); non-trivial = at least one candidate pair")
    _sample(v, recs)
    validate_traces(v, "Trace_Match", C14_CLAUSES, recs, site_match, what_fn=what_match)
    v.assumptions += ["TLC, CommunityModules", "ASSD comparisons undecidable at 1e-3 resolution are treated as ties (both outcomes allowed)"]


# --------------------------------------------------------------------------------------
# evaluate(): end to end
# --------------------------------------------------------------------------------------
def rand_handler(rng):
    toks = ["INF", "NAN", "ZERO", "ONE", "NONE"]
    return {"zt": {m: {s: rng.choice(toks) for s in ("NO_INSTANCES", "EMPTY_PRED", "EMPTY_REF", "NORMAL")}
                   for m in ("DSC", "IOU", "ASSD", "RVD", "clDSC")}, "estd": rng.choice(toks)}


DISTINCT_H = {"zt": {m: {"NO_INSTANCES": "NAN", "EMPTY_PRED": "ZERO", "EMPTY_REF": "ONE", "NORMAL": "INF"}
                     for m in ("DSC", "IOU", "ASSD", "RVD", "clDSC")}, "estd": "NONE"}


def rand_cfg(rng, inputs=("UNM", "UNM", "MAT", "SEM"), matchers=("naive", "naive", "m2o", "merge"),
             decisions=("NONE", "NONE", "IOU", "DSC", "ASSD"), handler=None):
    mm = rng.choice(["IOU", "DSC", "ASSD"])
    thr = rng.choice(gen.ASSD_THRESHOLDS if mm == "ASSD" else gen.THRESHOLDS)
    dm = rng.choice(decisions)
    dthr = rng.choice(gen.ASSD_THRESHOLDS if dm == "ASSD" else gen.THRESHOLDS)
    gm = rng.choice([["DSC"], ["DSC", "IOU"], ["DSC", "IOU", "RVD", "ASSD"], ["ASSD"], ["RVD"]])
    extra = {}
    if rng.random() < 0.25:
        # instance metrics other than the full list (the decision metric must be among them); the
        # global metrics are chosen independently of them
        im = [m for m in ("DSC", "IOU", "ASSD", "RVD") if rng.random() < 0.4 or m == dm]
        extra["im"] = im or [rng.choice(["DSC", "IOU", "RVD"])]
    return default_cfg(input=rng.choice(inputs), matcher=rng.choice(matchers), mm=mm, thr=list(thr), dm=dm,
                       dthr=list(dthr), gm=gm, backend=rng.choice(["default", "cc3d", "scipy"]), **extra,
                       h=handler if handler is not None else rng.choice([DEFAULT_H, DISTINCT_H, rand_handler(rng)]))


def gen_eval_records(rng, n_random, exhaustive_shapes, cfg_fn, max_vox=48, pair_fn=None):
    recs = []
    for shape, k in exhaustive_shapes:
        arrs = list(gen.all_arrays(shape, k))
        for pred in arrs:
            for ref in arrs:
                recs.append(rec_evaluate(pred, ref, cfg_fn(rng), meta={"gen": f"exhaustive{shape}"}))
    for _ in range(n_random):
        pred, ref = (pair_fn or gen.rand_unmatched_pair)(rng, max_vox=max_vox)
        cfg = cfg_fn(rng)
        g = "random"
        if rng.random() < 0.3:
            # label values anywhere in the dtype's range (uint8): results must not care
            g = "random-highlabels"
            if cfg["input"] == "MAT":
                labs = sorted(set(np.unique(pred)) | set(np.unique(ref)) - {0})
                new = dict(zip(labs, rng.sample(range(1, 256), len(labs))))
                new[0] = 0
                pred = np.vectorize(new.get)(pred)
                ref = np.vectorize(new.get)(ref)
            else:
                pred = gen.relabel_random(rng, pred, 1, 255)
                ref = gen.relabel_random(rng, ref, 1, 255)
        elif rng.random() < 0.15:
            # an overlapping prediction/reference pair whose label values add up to 2^8
            g = "random-wrapsum"
            if rng.random() < 0.5:
                # the wrapping pair is isolated: more than the crop padding away from everything else
                g = "random-wrapsum-far"
                pred, ref, p0, r0 = gen.far_block_pair(rng, joint=cfg["input"] == "MAT")
                both = [(p0, r0)]
            else:
                both = [(int(p), int(r)) for p, r in zip(pred.ravel(), ref.ravel()) if p and r]
            if both:
                p0, r0 = rng.choice(both)
                if cfg["input"] == "MAT" and p0 != r0:
                    pass
                elif cfg["input"] == "MAT":
                    pred = np.where(pred == p0, 128, np.where(pred == 128, p0, pred))
                    ref = np.where(ref == p0, 128, np.where(ref == 128, p0, ref))
                else:
                    rnew = rng.randint(200, 250)
                    ref = np.where(ref == r0, rnew, ref)
                    pred = np.where(pred == p0, 256 - rnew, np.where(pred == 256 - rnew, p0, pred))
        if g == "random" and rng.random() < 0.12 and cfg["input"] != "SEM":
            # several identical instance pairs: tied scores (std of equal values, ties in the matcher)
            k = rng.randint(3, 5)
            w = rng.randint(2, 4)
            p1 = np.zeros(w + 2, dtype=np.int64); r1 = np.zeros(w + 2, dtype=np.int64)
            r1[0:w] = 1
            p1[rng.randint(0, 1):w + rng.randint(0, 1)] = 1
            pred = np.concatenate([p1 * (i + 1) for i in range(k)])
            ref = np.concatenate([r1 * (i + 1) for i in range(k)])
            g = "random-identical-instances"
        dtype = np.uint8
        if g == "random" and rng.random() < 0.3:
            # wider dtypes with label values that are multiples of 256 / beyond 2^16
            dtype = rng.choice([np.uint16, np.uint32, np.uint64] if cfg["input"] != "SEM" else [np.uint16, np.int32, np.int64, np.uint32])
            k = rng.choice([256, 256, 65536 if dtype != np.uint16 else 512, 3])
            pred, ref = pred.astype(np.int64) * k, ref.astype(np.int64) * k
            g = f"random-wide-x{k}"
        recs.append(rec_evaluate(pred, ref, cfg, dtype=dtype, meta={"gen": g}))
    return recs


def _eval_key(r):
    c = r["cfg"]
    return (tuple(r["shape"]), tuple(r["pred"]), tuple(r["ref"]), c["input"], c["matcher"], c["mm"], tuple(c["thr"]), c["dm"],
            tuple(c["dthr"]), c["backend"], json.dumps(c["h"], sort_keys=True), tuple(c["gm"]))


def check_C01(tier: str, v: Verdict):
    drive.use_serial_pool()
    rng = random.Random(seed() * 7919 + 1)
    run_models(v, MODELS_QUICK if tier == "quick" else MODELS_THOROUGH)
    cfg_fn = lambda g: rand_cfg(g, matchers=("naive",))     # C01: one-to-one best-first matching  # noqa: E731
    if tier == "quick":
        recs = gen_eval_records(rng, 2500, [((2, 2), 1), ((4,), 1)], cfg_fn)
    else:
        recs = gen_eval_records(rng, 30000, [((2, 2), 2), ((4,), 2), ((2, 2, 2), 1)], cfg_fn)
    recs += replay_pipeline_behaviours(v, "MC_Pipeline_quick.cfg", (2, 2), 150 if tier == "quick" else 1500, seed() + 11)
    if tier == "thorough":
        recs += replay_pipeline_behaviours(v, "MC_Pipeline_thoroughall.cfg", (2, 2), 1500, seed() + 12)
        recs += replay_pipeline_behaviours(v, "MC_Pipeline_thorough3d.cfg", (2, 2, 2), 800, seed() + 13)
    _count_cov(v, recs, _eval_key, lambda r: any(r["pred"]) and any(r["ref"]))
    v.cov["rule"] = ("label-map pairs (exhaustive tiny grids + seeded random 1-D/2-D/3-D) x input type x backend x matching "
                     "metric/threshold x decision metric/threshold x handler; distinct by (arrays, config); non-trivial = both sides non-empty")
    _sample(v, recs)
    validate_traces(v, "Trace_Eval", EVAL_C01, recs, site_eval, what_fn=what_eval)
    large_scale(v, tier, ["T_Completes", "T_Counts", "T_Tp", "T_FpFn", "T_Lists", "T_Ambiguous", "T_Rq"], 101)
    from .extras import extra_input_contract
    extra_input_contract(v, tier)
    if tier == "thorough":
        good = next(r for r in recs if r["out"] == "ok" and r["res"]["tp"] >= 1)
        def corrupt(r):
            r["res"]["tp"] += 1
            return r
        corrupt_self_test(v, "Trace_Eval", EVAL_C01, good, corrupt)
    v.assumptions += ["TLC, CommunityModules", "float -> rational projection (unique small fraction within 4 ulp)",
                      "ASSD judged by TLC at 1e-3 resolution (integer interval for 1000*ASSD)",
                      "per-instance work executed by a serial stand-in for multiprocessing.Pool (C15 checks the real pool)"]


def check_C02(tier: str, v: Verdict):
    drive.use_serial_pool()
    rng = random.Random(seed() * 7919 + 2)
    run_models(v, MODELS_QUICK if tier == "quick" else MODELS_THOROUGH)
    if tier == "thorough":
        self_test_models(v, [("MC_Pipeline", "MC_Pipeline_legacy_tp.cfg", "InvBookkeeping")])
    cfg_fn = lambda g: rand_cfg(g, decisions=("NONE", "IOU", "DSC", "ASSD"))  # noqa: E731
    recs = gen_eval_records(rng, 2500 if tier == "quick" else 30000, [((4,), 1)] if tier == "quick" else [((2, 2), 2), ((4,), 2)], cfg_fn)
    # the README's own configuration: matched input, decision IoU >= 0.5
    readme = default_cfg(input="MAT", dm="IOU", dthr=[1, 2])
    for _ in range(300 if tier == "quick" else 3000):
        pred, ref = gen.rand_unmatched_pair(rng, max_vox=48)
        recs.append(rec_evaluate(pred, ref, readme, meta={"gen": "readme-config"}))
    direct = directly_constructed_results(rng, 400 if tier == "quick" else 4000)
    validate_traces(v, "Trace_Eval", [x for x in EVAL_C02 if x.startswith("T_Book")], direct, site_eval, what_fn=what_eval)
    v.cov["directly_constructed_results"] = len(direct)
    from .extras import extra_lazy_result
    extra_lazy_result(v, tier)
    large_scale(v, tier, ["T_Counts", "T_Tp", "T_FpFn", "T_BookCounts", "T_BookLists", "T_BookDecision", "T_Rq"], 102)
    _count_cov(v, recs, _eval_key, lambda r: r["out"] == "ok" and r["res"]["npred"] + r["res"]["nref"] > 0)
    v.cov["rule"] = ("evaluate() over label-map pairs x input types x matchers (incl. many-to-one, merge) x decision metric/threshold, "
                     "the README configuration, and directly constructed PanopticaResult objects; distinct by (arrays, config); "
                     "non-trivial = at least one instance")
    _sample(v, recs)
    validate_traces(v, "Trace_Eval", EVAL_C02, [r for r in recs if r["out"] == "ok"], site_eval, what_fn=what_eval)
    v.assumptions += ["TLC, CommunityModules", "std reported as variance (std^2) so that it is an exact rational",
                      "sq/std clauses skipped (counted) when the exact denominators would overflow TLC's 32-bit integers"]


def directly_constructed_results(rng, n):
    """C02 'additionally all (num_ref, num_pred, tp, value lists) for directly constructed results'."""
    from .rec_pipeline import METRIC, make_handler, project_result
    from .drive import quiet
    from panoptica import PanopticaResult
    recs = []
    vals = [0.0, 0.25, 0.5, 1.0, 1 / 3, 0.75]
    for _ in range(n):
        nref, npred = rng.randint(0, 4), rng.randint(0, 4)
        tp = rng.randint(0, min(nref, npred))
        with_cl = rng.random() < 0.5
        cfg = default_cfg(input="DIRECT", im=["DSC", "IOU", "RVD"] + (["clDSC"] if with_cl else []), gm=["DSC"], h=rng.choice([DEFAULT_H, DISTINCT_H]))
        lists = {}
        iou = [rng.choice(vals) for _ in range(tp)]
        lists["IOU"] = iou
        lists["DSC"] = [2 * x / (1 + x) for x in iou]
        lists["RVD"] = [rng.choice([-0.5, 0.0, 0.25, 1.0]) for _ in range(tp)]
        if with_cl:
            lists["clDSC"] = [rng.choice([0.125, 0.375, 0.625, 0.875, 1.0]) for _ in range(tp)]     # every pq_<m> is sq_<m> * rq
        with quiet():
            res = PanopticaResult(reference_arr=None, prediction_arr=None, num_pred_instances=npred, num_ref_instances=nref,
                                  tp=tp, list_metrics={METRIC[m]: lists[m] for m in lists}, edge_case_handler=make_handler(cfg["h"]),
                                  global_metrics=[])
            res.calculate_all()
            cfg2 = dict(cfg)
            cfg2["gm"] = []
            proj = project_result(res, cfg2, 24)
        cfg["gm"] = ["DSC"]
        proj["glob"] = {"DSC": {"k": "skip", "v": [0, 1]}}
        recs.append({"shape": [1], "pred": [0], "ref": [0], "cfg": cfg, "out": "ok", "res": proj, "glabels": [], "gall": [],
                     "gkind": "plain", "rel": "none", "outb": "ok", "resb": proj,
                     "meta": {"gen": "direct", "dtype": "none", "nref": nref, "npred": npred, "tp": tp, "lists": lists}})
    return recs


def check_C08(tier: str, v: Verdict):
    drive.use_serial_pool()
    rng = random.Random(seed() * 7919 + 8)
    run_models(v, MODELS_QUICK if tier == "quick" else MODELS_THOROUGH)
    toks = ["INF", "NAN", "ZERO", "ONE", "NONE"]
    rows = list(itertools.product(toks, repeat=4))           # 625 handler rows per metric
    recs = []
    metrics = ["DSC", "IOU", "ASSD", "RVD"]
    step = 7 if tier == "quick" else 1
    scen_inputs = _scenario_inputs()
    i = 0
    for focus in metrics:
        for row in rows[:: step]:
            for estd in (toks if tier == "thorough" else [toks[i % 5]]):
                h = rand_handler(rng)
                h["zt"][focus] = dict(zip(("NO_INSTANCES", "EMPTY_PRED", "EMPTY_REF", "NORMAL"), row))
                h["estd"] = estd
                scen, (pred, ref, inp, extra) = scen_inputs[i % len(scen_inputs)]
                i += 1
                cfg = default_cfg(input=inp, h=h, gm=["DSC"], **extra)
                recs.append(rec_evaluate(pred, ref, cfg, meta={"gen": "handler-row", "scenario": scen}))
    # at least one TP: the handler must not matter (same input, two random handlers)
    for _ in range(300 if tier == "quick" else 3000):
        pred, ref = gen.rand_unmatched_pair(rng, max_vox=36)
        cfg = rand_cfg(rng, handler=rand_handler(rng))
        recs.append(rec_evaluate(pred, ref, cfg, meta={"gen": "random-handler"}))
    _count_cov(v, recs, _eval_key, lambda r: r["out"] == "ok" and r["res"]["tp"] == 0)
    v.cov["rule"] = ("per metric: handler rows (5^4 results for the 4 scenarios, x5 empty-list values in the thorough tier) x inputs "
                     "realising each zero-TP scenario through each input type (no instances, empty prediction, empty reference, no match, "
                     "all matches fail the decision threshold); plus random inputs with random handlers; distinct by (arrays, config); "
                     "non-trivial = tp = 0")
    _sample(v, recs)
    validate_traces(v, "Trace_Eval", EVAL_C08 + ["T_Sq", "T_Std", "T_Lists"], recs, site_eval, what_fn=what_eval)
    v.assumptions += ["TLC, CommunityModules"]


def _scenario_inputs():
    z = np.zeros((3, 3), dtype=np.uint8)
    a = z.copy(); a[0, 0] = 1
    b = z.copy(); b[2, 2] = 1
    big = z.copy(); big[:, :] = 1
    out = []
    for inp in ("SEM", "UNM", "MAT"):
        out.append(("NO_INSTANCES", (z, z, inp, {})))
        out.append(("EMPTY_PRED", (z, a, inp, {})))
        out.append(("EMPTY_REF", (a, z, inp, {})))
        out.append(("NORMAL-nomatch", (a, b if inp != "MAT" else 2 * b, inp, {})))
        out.append(("NORMAL-decision-fails", (a, big, inp, {"thr": [0, 1], "dm": "IOU", "dthr": [1, 2]})))
    return out


def check_C13(tier: str, v: Verdict):
    drive.use_serial_pool()
    rng = random.Random(seed() * 7919 + 13)
    run_models(v, MODELS_QUICK if tier == "quick" else MODELS_THOROUGH)
    if tier == "thorough":
        self_test_models(v, [("MC_Pipeline", "MC_Pipeline_legacy_global.cfg", "InvGlobal")])
    gms = [["DSC"], ["IOU"], ["RVD"], ["ASSD"], ["DSC", "IOU"], ["DSC", "IOU", "RVD", "ASSD"]]
    def cfg_fn(g):
        c = rand_cfg(g, handler=g.choice([DISTINCT_H, rand_handler(g)]))
        c["gm"] = g.choice(gms)
        return c
    def pair_fn(g, max_vox=48):
        pred, ref = gen.rand_unmatched_pair(g, max_vox=max_vox)
        x = g.random()
        if x < 0.12:
            pred = np.zeros_like(pred)
        elif x < 0.24:
            ref = np.zeros_like(ref)
        elif x < 0.3:
            pred = np.zeros_like(pred); ref = np.zeros_like(ref)
        return pred, ref
    recs = gen_eval_records(rng, 2500 if tier == "quick" else 30000, [((4,), 1)] if tier == "quick" else [((2, 2), 2), ((4,), 2)],
                            cfg_fn, pair_fn=pair_fn)
    # twins: same foregrounds, different division into instances
    twins = []
    for r in recs[:: 5]:
        if r["out"] != "ok" or r["cfg"]["input"] == "SEM":
            continue
        pred = np.array(r["meta"]["raw_pred"]).reshape(r["shape"])
        ref = np.array(r["meta"]["raw_ref"]).reshape(r["shape"])
        p2 = np.where(pred != 0, (np.arange(pred.size).reshape(pred.shape) % 3) + 1, 0)
        twins.append(rec_evaluate(p2, ref, r["cfg"], meta={"gen": "repartitioned-twin"}))
    recs += twins
    _count_cov(v, recs, _eval_key, lambda r: True)
    v.cov["rule"] = ("label-map pairs incl. one or both sides empty x subsets of global metrics x handlers with pairwise distinct scenario "
                     "values x input types, plus re-partitioned twins (same foregrounds, other instances); distinct by (arrays, config)")
    _sample(v, recs)
    validate_traces(v, "Trace_Eval", EVAL_C13, recs, site_eval, what_fn=what_eval)
    v.assumptions += ["TLC, CommunityModules", "global ASSD judged at 1e-3 resolution"]


# --------------------------------------------------------------------------------------
# (S -> C) behaviours of Pipeline.tla replayed into evaluate(), phase by phase
# --------------------------------------------------------------------------------------
def _canon_partition(arr: np.ndarray, union: np.ndarray):
    """partition of arr's foreground, in coordinates relative to the bounding box of `union`"""
    if not union.any():
        return frozenset()
    idx = np.argwhere(union)
    lo = idx.min(axis=0)
    parts = {}
    for p in np.argwhere(arr != 0):
        parts.setdefault(int(arr[tuple(p)]), set()).add(tuple(int(x) for x in (p - lo)))
    return frozenset(frozenset(s) for s in parts.values())


def replay_pipeline_behaviours(v: Verdict, cfg_file: str, shape, num: int, sd: int):
    """tlc -simulate on Pipeline.tla; every behaviour (input, configuration, unmatched pair, label map,
    matched pair, result) is replayed into Panoptica_Evaluator.evaluate: the unmatched instance pair the
    code exposes must have the specification's partitions, and the result the specification's counts and
    score bags - unless a tie made the code take another allowed order (then the record, which is also
    handed to Trace_Eval, must still be one of the allowed answers)."""
    import shutil
    from fractions import Fraction
    from . import common
    from .behaviours import parse_behaviour_file
    from .common import run_tlc, Machinery
    from .rec_pipeline import make_evaluator, INPUT
    from .drive import quiet
    from panoptica import InputType, Metric, MetricMode
    sdir = common.scratch("sim-pipe")
    recs, followed, tie_div = [], 0, 0
    try:
        r = run_tlc("MC_Pipeline", cfg_file, simulate=f"file={sdir / 'b'},num={num}", depth=16, workers=1, cont=False,
                    extra=["-seed", str(sd)], timeout=900)
        v.add_tlc(r)
        files = sorted(sdir.glob("b_*"))
        if not files:
            raise Machinery(f"no behaviours simulated from {cfg_file}: {r.raw[-500:]}")
        for f in files:
            beh = parse_behaviour_file(f)
            last = beh[-1][1]
            if last["pc"] != "result":
                continue
            c = last["cfg"]
            cfg = default_cfg(input=c["input"], backend=c["backend"], matcher=c["matcher"], mm=c["mm"], thr=list(c["thr"]), dm=c["dm"],
                              dthr=list(c["dthr"]), im=sorted(c["im"]), gm=sorted(c["gm"]), h={"zt": {**DEFAULT_H["zt"], **c["h"]["zt"]}, "estd": c["h"]["estd"]})
            pred = np.array(last["inp"]["pred"], dtype=np.uint8).reshape(shape)
            ref = np.array(last["inp"]["ref"], dtype=np.uint8).reshape(shape)
            rec = rec_evaluate(pred, ref, cfg, meta={"gen": "tlc-behaviour"})
            recs.append(rec)
            # phase 1: the unmatched instance pair
            unm = next((s["unm"] for _, s in beh if s["pc"] in ("unmatched", "scan", "matched") and "pr" in s["unm"]), None)
            ok = rec["out"] == "ok"
            if ok and unm is not None and c["input"] != "MAT":
                try:
                    with quiet():
                        out = make_evaluator(cfg).evaluate(pred.copy(), ref.copy(), verbose=False)["ungrouped"]
                    steps = out[1]
                    cp = np.asarray(steps.prediction_arr(InputType.UNMATCHED_INSTANCE))
                    cr = np.asarray(steps.reference_arr(InputType.UNMATCHED_INSTANCE))
                    sp = np.array(unm["pr"]).reshape(shape)
                    sr = np.array(unm["rf"]).reshape(shape)
                    same = (_canon_partition(cp, (cp != 0) | (cr != 0)) == _canon_partition(sp, (sp != 0) | (sr != 0))
                            and _canon_partition(cr, (cp != 0) | (cr != 0)) == _canon_partition(sr, (sp != 0) | (sr != 0)))
                    # phase 2: the matched pair - the pairs (reference instance, prediction voxels carrying its label)
                    lm_state = next((s["lm"] for _, s in beh if s["pc"] == "loopdone"), None)
                    if same and lm_state is not None:
                        try:
                            mp = np.asarray(steps.prediction_arr(InputType.MATCHED_INSTANCE))
                            mr = np.asarray(steps.reference_arr(InputType.MATCHED_INSTANCE))
                            uni = (mp != 0) | (mr != 0)
                            code_pairs = set()
                            for lab in set(np.unique(mp)) & set(np.unique(mr)) - {0}:
                                code_pairs.add((_canon_partition(np.where(mr == lab, 1, 0), uni), _canon_partition(np.where(mp == lab, 1, 0), uni)))
                            suni = (sp != 0) | (sr != 0)
                            spec_pairs = set()
                            for rlab in {e[0] for e in lm_state}:
                                preds = [e[1] for e in lm_state if e[0] == rlab]
                                spec_pairs.add((_canon_partition(np.where(sr == rlab, 1, 0), suni), _canon_partition(np.where(np.isin(sp, preds), 1, 0), suni)))
                            if code_pairs == spec_pairs:
                                v.cov["spec_behaviours_matched_phase_equal"] = v.cov.get("spec_behaviours_matched_phase_equal", 0) + 1
                        except Exception:  # noqa: BLE001   (early exit: no matched step recorded)
                            pass
                    if not same:
                        v.violation("S2C_UnmatchedPhase", site_eval(rec, "S2C_UnmatchedPhase"), {"spec": "Trace_Eval", "invariants": EVAL_C01, "record": rec,
                                                                                                "spec_unm": {"pr": list(unm["pr"]), "rf": list(unm["rf"])}},
                                    what="the unmatched instance pair exposed by evaluate() differs from the specification's state " + what_eval(rec, ""))
                        ok = False
                except Exception as e:  # noqa: BLE001   (API for intermediate steps not available: only the result is compared)
                    v.notes.append(f"intermediate steps not comparable: {type(e).__name__}")
            # final result: counts and exact score bags
            if ok:
                sres, cres = last["res"], rec["res"]
                same = (sres["tp"] == cres["tp"] and sres["fp"] == cres["fp"] and sres["fn"] == cres["fn"]
                        and sres["nP"] == cres["npred"] and sres["nR"] == cres["nref"])
                for m in ("IOU", "DSC", "RVD"):
                    a = sorted(Fraction(x["lo"][0], x["lo"][1]) for x in sres["lists"][m])
                    b = sorted(Fraction(x["v"][0], x["v"][1]) for x in cres["lists"][m] if x["k"] == "rat")
                    same = same and a == b
                if same:
                    followed += 1
                else:
                    tie_div += 1
    finally:
        shutil.rmtree(sdir, ignore_errors=True)
    v.cov["spec_behaviours_replayed"] = v.cov.get("spec_behaviours_replayed", 0) + followed
    v.cov["spec_behaviours_other_tie_order"] = v.cov.get("spec_behaviours_other_tie_order", 0) + tie_div
    return recs


# --------------------------------------------------------------------------------------
# large-scale runs on the contingency table
# --------------------------------------------------------------------------------------
CT_CLAUSES = ["T_Completes", "T_Counts", "T_Tp", "T_FpFn", "T_Lists", "T_Ambiguous", "T_Rq", "T_BookCounts", "T_BookLists", "T_BookDecision"]


def gen_ct_records(rng, n_many, n_big):
    from .rec_pipeline import rec_evaluate_ct
    recs = []

    def cfg_for(inp):
        mm = rng.choice(["IOU", "DSC"])
        return default_cfg(input=inp, matcher=rng.choice(["naive", "naive", "m2o", "merge"]), mm=mm, thr=list(rng.choice(gen.THRESHOLDS)),
                           dm=rng.choice(["NONE", "IOU", "DSC"]), dthr=list(rng.choice(gen.THRESHOLDS)), im=["DSC", "IOU", "RVD"], gm=["DSC"])
    for _ in range(n_many):
        # many small instances: more than 255 (and label values beyond 2^8 / 2^16)
        k = rng.choice([120, 260, 300])
        shape = (k * 2 + 4, 6)
        ref = np.zeros(shape, dtype=np.int64)
        pred = np.zeros(shape, dtype=np.int64)
        labs = rng.sample(range(1, 70000), k) if rng.random() < 0.5 else list(range(1, k + 1))
        for i, lab in enumerate(labs):
            ref[2 * i, 0:rng.randint(2, 6)] = lab
            x = rng.random()
            if x < 0.7:
                pred[2 * i, rng.randint(0, 2):rng.randint(3, 6)] = lab if rng.random() < 0.5 else labs[(i * 7 + 1) % k] + 70000
            elif x < 0.8:
                pred[2 * i + 1, 0:3] = lab + 140000
        inp = rng.choice(["UNM", "MAT"])
        recs.append(rec_evaluate_ct(pred, ref, cfg_for(inp), dtype=np.uint32, meta={"gen": f"many-instances-{k}"}))
    for _ in range(n_big):
        # few instances of more than 2^16 voxels each
        shape = (300, 700)
        ref = np.zeros(shape, dtype=np.int64)
        pred = np.zeros(shape, dtype=np.int64)
        for i in range(rng.randint(1, 3)):
            r0 = i * 100
            ref[r0:r0 + rng.randint(94, 99), 0:rng.randint(690, 700)] = i + 1
            a, b = rng.randint(0, 8), rng.randint(0, 40)
            pred[r0 + a:r0 + 96, b:700 - rng.randint(0, 30)] = (i + 1) if rng.random() < 0.6 else i + 11
            if rng.random() < 0.4:
                pred[r0 + 50:r0 + 96, 300:700][pred[r0 + 50:r0 + 96, 300:700] != 0] = i + 21     # split into two fragments
        inp = rng.choice(["UNM", "MAT"])
        recs.append(rec_evaluate_ct(pred, ref, cfg_for(inp), dtype=rng.choice([np.uint8, np.uint16, np.uint32]), meta={"gen": "big-instances"}))
    return recs


def large_scale(v: Verdict, tier: str, clauses, sd: int):
    rng = random.Random(seed() * 7919 + sd)
    recs = gen_ct_records(rng, 6 if tier == "quick" else 60, 6 if tier == "quick" else 60)
    n = validate_traces(v, "Trace_EvalCT", clauses, recs, lambda r, c: dict(site_eval_ct(r)), per_trace_states=3,
                        what_fn=lambda r, c: f"large-scale {r['meta'].get('gen')} shape={r['meta']['shape']} n_ref={r['meta']['n_ref']} n_pred={r['meta']['n_pred']} "
                                             f"max_count={r['meta']['max_count']} {r['meta'].get('exception', '')[:100]}")
    v.cov["large_scale_runs"] = v.cov.get("large_scale_runs", 0) + n
    v.cov["evaluations"] += len(recs)


def site_eval_ct(rec):
    c = rec["cfg"]
    return {"input": c["input"], "matcher": c["matcher"], "mm": c["mm"], "dm": c["dm"], "dtype": rec["meta"].get("dtype"), "out": rec["out"],
            "gen": rec["meta"].get("gen", ""), "exc": rec["meta"].get("exception", "").split(":")[0], "scale": "contingency-table"}
