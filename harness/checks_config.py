"""Check C19: saving and loading a configuration reproduces the same evaluator / component."""
from __future__ import annotations

import enum
import hashlib
import inspect
import itertools
import json
import os
import random
import shutil
import traceback
from pathlib import Path

import numpy as np

from . import common, drive, gen
from .common import Machinery, Verdict, run_tlc, seed
from .drive import quiet
from .engine import validate_traces

C19_CLAUSES = ["T_SavesAndLoads", "T_EverythingSaved", "T_FieldsPreserved", "T_SaveIdempotent", "T_SameResults"]
# constructor parameters that are pure conveniences and deliberately not part of the saved state
DERIVED = {("MetricZeroTPEdgeCaseHandling", "default_result")}


def _lib():
    from panoptica import (CCABackend, ConnectedComponentsInstanceApproximator, InputType, Metric, NaiveThresholdMatching,
                           Panoptica_Evaluator)
    from panoptica.instance_matcher import MaximizeMergeMatching
    from panoptica.utils import LabelGroup, LabelMergeGroup, SegmentationClassGroups
    from panoptica.utils.edge_case_handling import EdgeCaseHandler, EdgeCaseResult, MetricZeroTPEdgeCaseHandling
    return locals()


def tok(v) -> str:
    """canonical token of a configuration value"""
    from panoptica.utils.config import SupportsConfig
    from panoptica.metrics import Metric
    if v is None:
        return "None"
    if isinstance(v, bool):
        return repr(v)
    if isinstance(v, (int, np.integer)):
        return repr(int(v))
    if isinstance(v, (float, np.floating)):
        return repr(float(v))
    if isinstance(v, str):
        return "'" + v + "'"
    if isinstance(v, enum.Enum):
        return type(v).__name__ + "." + v.name
    if isinstance(v, (list, tuple)):
        return "[" + ",".join(tok(x) for x in v) + "]"
    if isinstance(v, dict):
        return "{" + ",".join(sorted(tok(k) + ":" + tok(x) for k, x in v.items())) + "}"
    if isinstance(v, SupportsConfig):
        return type(v).__name__ + "(" + ",".join(sorted(k + "=" + tok(x) for k, x in type(v)._yaml_repr(v).items())) + ")"
    return repr(v)


def candidates():
    """class -> (minimal constructor kwargs, {param: [non-default values]})"""
    L = _lib()
    M, ER = L["Metric"], L["EdgeCaseResult"]
    mz = lambda a, b, c, d: L["MetricZeroTPEdgeCaseHandling"](no_instances_result=a, empty_prediction_result=b, empty_reference_result=c, normal=d)  # noqa: E731
    handler = L["EdgeCaseHandler"](listmetric_zeroTP_handling={M.DSC: mz(ER.ONE, ER.ZERO, ER.INF, ER.NAN), M.IOU: mz(ER.NAN, ER.ONE, ER.ZERO, ER.NONE),
                                                                M.ASSD: mz(ER.INF, ER.INF, ER.ZERO, ER.ONE), M.RVD: mz(ER.ZERO, ER.NAN, ER.ONE, ER.INF),
                                                                M.clDSC: mz(ER.NAN, ER.NAN, ER.NAN, ER.NAN)}, empty_list_std=ER.ZERO)
    groups = L["SegmentationClassGroups"]({"Vertebra": L["LabelGroup"]([1, 2]), "disc-1": L["LabelMergeGroup"]([3, 4]),
                                           "sacrum": L["LabelGroup"]([5], single_instance=True)})
    # group names that YAML dialects read as something other than a string
    groups_yaml = L["SegmentationClassGroups"]({"ON": L["LabelGroup"]([1]), "no": L["LabelGroup"]([2, 3]), "yes": L["LabelMergeGroup"]([4]),
                                                "null": L["LabelGroup"]([5]), "1e3": L["LabelGroup"]([6]), "~": L["LabelGroup"]([7])})
    groups_yaml2 = L["SegmentationClassGroups"]({"off": L["LabelGroup"]([1, 2]), "123": L["LabelGroup"]([3]), "true": L["LabelGroup"]([4]),
                                                 "a: b": L["LabelGroup"]([5]), "#x": L["LabelGroup"]([6])})
    return {
        "NaiveThresholdMatching": (L["NaiveThresholdMatching"], {}, {"matching_metric": [M.DSC, M.ASSD], "matching_threshold": [0.0, 0.25, 1.0, 0],
                                                                      "allow_many_to_one": [True]}),
        "MaximizeMergeMatching": (L["MaximizeMergeMatching"], {}, {"matching_metric": [M.DSC, M.ASSD], "matching_threshold": [0.0, 0.75, 2.5]}),
        "ConnectedComponentsInstanceApproximator": (L["ConnectedComponentsInstanceApproximator"], {}, {"cca_backend": [L["CCABackend"].cc3d, L["CCABackend"].scipy]}),
        "MetricZeroTPEdgeCaseHandling": (L["MetricZeroTPEdgeCaseHandling"], {"default_result": ER.ZERO},
                                         {"no_instances_result": [ER.NAN, ER.ONE], "empty_prediction_result": [ER.INF, ER.NONE],
                                          "empty_reference_result": [ER.ONE, ER.NAN], "normal": [ER.INF, ER.NONE]}),
        "EdgeCaseHandler": (L["EdgeCaseHandler"], {}, {"empty_list_std": [ER.ZERO, ER.NONE, ER.INF],
                                                       "listmetric_zeroTP_handling": [handler.listmetric_zeroTP_handling]}),
        "LabelGroup": (L["LabelGroup"], {"value_labels": [3]}, {"value_labels": [[1, 2, 7], [300]], "single_instance": [True]}),
        "LabelMergeGroup": (L["LabelMergeGroup"], {"value_labels": [3]}, {"value_labels": [[4, 5]], "single_instance": [True]}),
        "SegmentationClassGroups": (L["SegmentationClassGroups"], {"groups": {"a": L["LabelGroup"]([1])}}, {"groups": [dict(groups.items()), dict(groups_yaml.items()), dict(groups_yaml2.items())]}),
        "Panoptica_Evaluator": (L["Panoptica_Evaluator"], {"instance_approximator": L["ConnectedComponentsInstanceApproximator"](),
                                                           "instance_matcher": L["NaiveThresholdMatching"]()},
                                {"expected_input": [L["InputType"].SEMANTIC, L["InputType"].UNMATCHED_INSTANCE],
                                 "instance_approximator": [L["ConnectedComponentsInstanceApproximator"](L["CCABackend"].scipy)],
                                 "instance_matcher": [L["NaiveThresholdMatching"](M.DSC, 0.25, True), L["MaximizeMergeMatching"](M.ASSD, 1.5)],
                                 "edge_case_handler": [handler],
                                 "segmentation_class_groups": [groups, groups_yaml, groups_yaml2],
                                 "instance_metrics": [[M.DSC, M.IOU], [M.IOU, M.ASSD, M.RVD]],
                                 "global_metrics": [[], [M.DSC, M.IOU, M.RVD]],
                                 "decision_metric": [M.IOU, M.ASSD],
                                 "decision_threshold": [0.5, 0.0, 0, 1.0],
                                 "save_group_times": [True], "log_times": [True], "verbose": [True]}),
    }


def extract_constants():
    """Params / Saved / Default / Dom of Config.tla, from the working tree"""
    cands = candidates()
    out = {}
    for cname, (cls, minimal, var) in cands.items():
        sig = inspect.signature(cls.__init__)
        params = [p for p in sig.parameters if p != "self" and (cname, p) not in DERIVED
                  and sig.parameters[p].kind in (inspect.Parameter.POSITIONAL_OR_KEYWORD, inspect.Parameter.KEYWORD_ONLY)]
        with quiet(), drive.time_limit(240):
            probe = cls(**minimal)
            saved = list(cls._yaml_repr(probe).keys())
        default = {}
        dom = {}
        for p in params:
            d = sig.parameters[p].default
            default[p] = "REQUIRED" if d is inspect.Parameter.empty else tok(d)
            vals = {default[p]} | {tok(x) for x in var.get(p, [])}
            if p in minimal and (cname, p) not in DERIVED:
                vals.add(tok(minimal[p]))
            dom[p] = sorted(vals)
        out[cname] = {"params": params, "saved": saved, "default": default, "dom": dom}
    return out


def tla_str(s):
    return '"' + s.replace("\\", "\\\\").replace('"', '\\"') + '"'


def tla_set(xs):
    return "{" + ", ".join(tla_str(x) for x in xs) + "}"


def gen_module(consts, name):
    fn = lambda items: "(" + " @@ ".join(f"{tla_str(k)} :> {v}" for k, v in items) + ")"  # noqa: E731
    lines = [f"---- MODULE {name} ----", "EXTENDS Config", "\\* generated from the working tree of /repo by harness/checks_config.py",
             f"GenClasses == {tla_set(consts)}",
             "GenParams == " + fn([(c, tla_set(d["params"])) for c, d in consts.items()]),
             "GenSaved == " + fn([(c, tla_set(d["saved"])) for c, d in consts.items()]),
             "GenDefault == " + fn([(c, fn([(p, tla_str(v)) for p, v in d["default"].items()])) for c, d in consts.items()]),
             "GenDom == " + fn([(c, fn([(p, tla_set(v)) for p, v in d["dom"].items()])) for c, d in consts.items()]),
             "===="]
    return "\n".join(lines)


def model_check_config(v: Verdict, consts):
    name = f"Gen_Config_{os.getpid()}"
    mod = common.SPEC / f"{name}.tla"
    cfg = common.SPEC / f"{name}.cfg"
    try:
        mod.write_text(gen_module(consts, name))
        cfg.write_text("CONSTANT Classes <- GenClasses\nCONSTANT Params <- GenParams\nCONSTANT Saved <- GenSaved\nCONSTANT Default <- GenDefault\n"
                       "CONSTANT Dom <- GenDom\nINIT Init\nNEXT Next\nINVARIANT RoundTrip\nINVARIANT SaveIdempotent\nINVARIANT EverythingSaved\nCHECK_DEADLOCK FALSE\n")
        r = run_tlc(name, cfg.name, cont=False)
        v.add_tlc(r)
        if r.errors:
            raise Machinery(f"TLC error in generated Config model: {r.errors[0][:1200]}")
        v.notes.append(f"Config model with constants extracted from the tree: {r.distinct} states")
        if r.violations:
            viol = r.violations[0]
            # the model of the CODE's own save/load surface loses a field: that is a statement about /repo
            v.violation("Model" + viol["inv"], {"kind": "extracted-constants", "inv": viol["inv"]},
                        {"kind": "config-model", "state": viol["vars"], "constants": consts},
                        what=f"configuration lost by save/load according to the extracted field lists: {viol['vars'].get('o', '')[:300]}")
    finally:
        for f in (mod, cfg):
            f.unlink(missing_ok=True)


# --------------------------------------------------------------------------------------
# real round trips
# --------------------------------------------------------------------------------------
def _probe_inputs():
    rng = random.Random(1919)
    out = []
    for shape in ((6, 6), (4, 4, 4)):
        ref = ((gen.rand_instances(rng, shape, 4) - 1) % 5 + 1) * (gen.rand_instances(rng, shape, 4) != 0)
        pred = gen.derive_prediction(rng, ref.astype(np.int64)) % 6
        out.append((pred.astype(np.uint8), ref.astype(np.uint8)))
    return out


def behaviour(cname, obj, rev=False):
    """a digest of what the object DOES on probe inputs ('na' when there is nothing to run); rev: the probe
    inputs are presented in the other order (3-D first, then 2-D) - the digest is per input, so it is the same"""
    from .checks_objects import _digest_result
    from panoptica import UnmatchedInstancePair, SemanticPair
    try:
        with quiet(), drive.time_limit(240):
            if cname == "Panoptica_Evaluator":
                probes = list(enumerate(_probe_inputs()))
                parts = [""] * len(probes)
                for i, (pred, ref) in (reversed(probes) if rev else probes):
                    try:
                        parts[i] = _digest_result(obj.evaluate(pred.copy(), ref.copy(), verbose=False))
                    except Exception as e:  # noqa: BLE001   (e.g. labels outside the class groups: same for both objects)
                        parts[i] = "raise:" + type(e).__name__
                return "|".join(parts)
            if cname in ("NaiveThresholdMatching", "MaximizeMergeMatching"):
                pred, ref = _probe_inputs()[0]
                m = obj.match_instances(UnmatchedInstancePair(pred.copy(), ref.copy()))
                return hashlib.sha1(np.asarray(m.prediction_arr).astype(np.int64).tobytes()).hexdigest()[:12]
            if cname == "ConnectedComponentsInstanceApproximator":
                if not rev:
                    # the original object has met a 2-D input before the 3-D probe, the second loaded copy has not
                    p2, r2 = _probe_inputs()[0]
                    obj.approximate_instances(SemanticPair(p2.copy(), r2.copy()))
                pred, ref = _probe_inputs()[1]
                u = obj.approximate_instances(SemanticPair(pred.copy(), ref.copy()))
                return hashlib.sha1(np.asarray(u.prediction_arr).astype(np.int64).tobytes() + np.asarray(u.reference_arr).astype(np.int64).tobytes()).hexdigest()[:12]
            if cname in ("LabelGroup", "LabelMergeGroup"):
                pred, _ = _probe_inputs()[0]
                return hashlib.sha1(np.asarray(obj(pred)).tobytes()).hexdigest()[:12] + str(obj.single_instance)
            if cname == "EdgeCaseHandler":
                from panoptica import Metric
                out = [repr(obj.handle_empty_list_std())]
                for m in Metric:
                    for npd, nrf in ((0, 0), (0, 2), (2, 0), (1, 1)):
                        try:
                            out.append(repr(obj.handle_zero_tp(m, 0, npd, nrf)))
                        except Exception as e:  # noqa: BLE001
                            out.append(type(e).__name__)
                return "|".join(out)
            if cname == "MetricZeroTPEdgeCaseHandling":
                return "|".join(repr(obj(0, a, b)) for a, b in ((0, 0), (0, 2), (2, 0), (1, 1)))
            if cname == "SegmentationClassGroups":
                pred, _ = _probe_inputs()[0]
                return "|".join(sorted(f"{k}:{hashlib.sha1(np.asarray(g(pred)).tobytes()).hexdigest()[:8]}:{g.single_instance}" for k, g in obj.items()))
    except Exception as e:  # noqa: BLE001
        return "raise:" + type(e).__name__
    return "na"


def round_trip(cname, cls, kwargs, params, workdir: Path, meta=None) -> dict:
    from ruamel.yaml import YAML
    rec = {"cls": cname, "params": list(params), "orig": [], "saved": [], "out": "ok", "loaded": [], "same_text": False,
           "same_results": "na", "meta": dict(meta or {})}
    rec["meta"]["kwargs"] = {k: tok(v) for k, v in kwargs.items()}
    shutil.rmtree(workdir, ignore_errors=True)
    workdir.mkdir(parents=True)
    try:
        with quiet(), drive.time_limit(240):
            obj = cls(**kwargs)
    except Exception as e:  # noqa: BLE001   not a valid configuration: the constructor itself rejects it
        rec["meta"]["invalid"] = f"{type(e).__name__}: {e}"[:200]
        return None
    try:
        with quiet(), drive.time_limit(240):
            rep = cls._yaml_repr(obj)
            # what the object was constructed with: explicit arguments, otherwise what it reports itself
            rec["orig"] = [tok(kwargs[p]) if p in kwargs and kwargs[p] is not None else tok(rep.get(p, None)) for p in params]
            f1, f2 = workdir / "a.yaml", workdir / "b.yaml"
            obj.save_to_config(str(f1))
            y = YAML(typ="rt").load(f1.read_text())
            rec["saved"] = [str(k) for k in y.keys()] if hasattr(y, "keys") else []
            loaded = cls.load_from_config(str(f1))
            rep2 = type(loaded)._yaml_repr(loaded)
            rec["loaded"] = [tok(rep2.get(p, None)) for p in params]
            # values that the constructor legitimately normalises are compared in normalised form
            rec["orig"] = [_norm(cname, p, o) for p, o in zip(params, rec["orig"])]
            rec["loaded"] = [_norm(cname, p, o) for p, o in zip(params, rec["loaded"])]
            loaded.save_to_config(str(f2))
            rec["same_text"] = f1.read_bytes() == f2.read_bytes()
            b1, b2 = behaviour(cname, obj), behaviour(cname, loaded)
            # a second loaded copy meets the probe inputs in the other order: a loaded evaluator is the same
            # evaluator whatever either of them has evaluated before
            b3 = behaviour(cname, cls.load_from_config(str(f1)), rev=True) if b1 != "na" else "na"
            rec["same_results"] = "na" if b1 == "na" else ("yes" if b1 == b2 == b3 else "no")
            rec["meta"]["behaviour"] = [b1[:60], b2[:60], b3[:60]]
    except Exception as e:  # noqa: BLE001
        rec["out"] = "raise"
        rec["meta"]["exception"] = f"{type(e).__name__}: {e}"[:300]
        rec["meta"]["tb"] = traceback.format_exc()[-600:]
        rec["orig"] = rec["orig"] or ["-"] * len(params)
        rec["loaded"] = ["-"] * len(params)
        rec["saved"] = rec["saved"] or ["-"]
    finally:
        shutil.rmtree(workdir, ignore_errors=True)
    return rec


def _norm(cname, p, t):
    if cname in ("LabelGroup", "LabelMergeGroup") and p == "value_labels":
        import ast
        try:
            return tok(sorted(set(ast.literal_eval(t))))
        except Exception:  # noqa: BLE001
            return t
    return t


def site_c19(rec, clause):
    kw = rec["meta"].get("kwargs", {})
    return {"cls": rec["cls"], "out": rec["out"], "exc": rec["meta"].get("exception", "").split(":")[0], "varied": ",".join(sorted(rec["meta"].get("varied", []))),
            "zero_threshold": any(v in ("0", "0.0") for k, v in kw.items() if "threshold" in k)}


def check_C19(tier: str, v: Verdict):
    drive.use_serial_pool()
    rng = random.Random(seed() * 7919 + 19)
    with quiet():
        consts = extract_constants()
    model_check_config(v, consts)
    cands = candidates()
    root = common.scratch("C19-runs")
    recs = []
    try:
        k = 0
        for cname, (cls, minimal, var) in cands.items():
            params = consts[cname]["params"]
            combos = [dict(minimal)]
            singles = [(p, val) for p in var for val in var[p]]
            for p, val in singles:
                combos.append({**minimal, p: val, "_varied": [p]})
            pairs = [(a, b) for a, b in itertools.combinations(singles, 2) if a[0] != b[0]]
            rng.shuffle(pairs)
            for a, b in pairs[: (25 if tier == "quick" else 400)]:
                combos.append({**minimal, a[0]: a[1], b[0]: b[1], "_varied": [a[0], b[0]]})
            if cname == "Panoptica_Evaluator":
                for _ in range(20 if tier == "quick" else 300):       # random points of the full product
                    kw = dict(minimal)
                    varied = []
                    for p in var:
                        if rng.random() < 0.5:
                            kw[p] = rng.choice(var[p])
                            varied.append(p)
                    kw["_varied"] = varied
                    combos.append(kw)
            for kw in combos:
                varied = kw.pop("_varied", [])
                if cname == "Panoptica_Evaluator":
                    dm, dt = kw.get("decision_metric"), kw.get("decision_threshold")
                    if dm is not None and dt is None:
                        kw["decision_threshold"] = 0.5
                    if dm is not None:
                        ims = kw.get("instance_metrics")
                        if ims is not None and dm not in ims:
                            kw["instance_metrics"] = list(ims) + [dm]
                rt = round_trip(cname, cls, kw, params, root / f"r{k}", meta={"gen": "one/two-at-a-time", "varied": varied})
                if rt is not None:
                    recs.append(rt)
                k += 1
        # the shipped configurations load (and round trip)
        from panoptica import Panoptica_Evaluator
        from panoptica.utils import SegmentationClassGroups
        cfgdir = Path(inspect.getfile(Panoptica_Evaluator)).parent / "configs"
        for f in sorted(cfgdir.glob("*.yaml")):
            cls = SegmentationClassGroups if f.name.startswith("SegmentationClassGroups") else Panoptica_Evaluator
            rec = {"cls": cls.__name__, "params": ["-"], "orig": ["-"], "saved": ["-"], "out": "ok", "loaded": ["-"], "same_text": True,
                   "same_results": "na", "meta": {"gen": "shipped", "file": f.name, "varied": []}}
            try:
                with quiet():
                    o1 = cls.load_from_config_name(f.stem)
                    d = root / "ship"
                    d.mkdir(parents=True, exist_ok=True)
                    o1.save_to_config(str(d / "a.yaml"))
                    o2 = cls.load_from_config(str(d / "a.yaml"))
                    o2.save_to_config(str(d / "b.yaml"))
                    rec["same_text"] = (d / "a.yaml").read_bytes() == (d / "b.yaml").read_bytes()
                    b1, b2 = behaviour(cls.__name__, o1), behaviour(cls.__name__, o2)
                    rec["same_results"] = "yes" if b1 == b2 else "no"
            except Exception as e:  # noqa: BLE001
                rec["out"] = "raise"
                rec["meta"]["exception"] = f"{type(e).__name__}: {e}"[:300]
            recs.append(rec)
        # saving and loading BY NAME (the files land in the package directory; removed right away): several
        # configurations under names that differ only after a dot must each come back as what was saved
        from panoptica import NaiveThresholdMatching
        from panoptica.utils.filepath import config_dir_by_name
        names = {"zz_verif_tmp_iou_0.5": 0.5, "zz_verif_tmp_iou_0.75": 0.75, "zz_verif_tmp_iou": 0.25, "zz_verif_tmp.iou.v2": 1.0}
        written = []
        try:
            objs = {}
            with quiet(), drive.time_limit(240):
                for nm, thr in names.items():
                    objs[nm] = NaiveThresholdMatching(matching_threshold=thr)
                    objs[nm].save_to_config_by_name(nm)
                    d_, n_ = config_dir_by_name(nm)
                    written.append(Path(d_) / n_)
            for nm, thr in names.items():
                rec = {"cls": "NaiveThresholdMatching", "params": ["-"], "orig": ["-"], "saved": ["-"], "out": "ok", "loaded": ["-"], "same_text": True,
                       "same_results": "na", "meta": {"gen": "by-name", "file": nm, "varied": ["matching_threshold"]}}
                try:
                    with quiet(), drive.time_limit(240):
                        o2 = NaiveThresholdMatching.load_from_config_name(nm)
                        rec["same_results"] = "yes" if behaviour("NaiveThresholdMatching", objs[nm]) == behaviour("NaiveThresholdMatching", o2) \
                            and float(o2._matching_threshold) == thr else "no"
                except Exception as e:  # noqa: BLE001
                    rec["out"] = "raise"
                    rec["meta"]["exception"] = f"{type(e).__name__}: {e}"[:300]
                recs.append(rec)
        except Exception as e:  # noqa: BLE001   (the by-name API is gone or refuses these names: nothing to judge)
            v.notes.append(f"by-name round trips skipped: {type(e).__name__}: {str(e)[:100]}")
        finally:
            pkg = Path(inspect.getfile(Panoptica_Evaluator)).parent
            for f in list(written) + list(pkg.rglob("zz_verif_tmp*")):
                try:
                    Path(f).unlink()
                except OSError:
                    pass
    finally:
        shutil.rmtree(root, ignore_errors=True)
    v.cov["evaluations"] = len(recs)
    v.cov["distinct_nontrivial"] = len({(r["cls"], json.dumps(r["meta"].get("kwargs", r["meta"].get("file")), sort_keys=True)) for r in recs if r["meta"].get("varied") or r["meta"].get("file")})
    v.cov["rule"] = ("real save -> load -> save round trips of the evaluator and of every configurable component: each constructor parameter "
                     "varied away from its default one at a time and pairwise, random points of the evaluator's full product, the shipped "
                     "configs; orig vs loaded compared field by field, file text idempotent, identical behaviour on probe inputs; distinct by "
                     "(class, arguments); non-trivial = some field off default")
    v.cov["samples"] = [{"cls": r["cls"], "kwargs": r["meta"].get("kwargs")} for r in recs[:: max(1, len(recs) // 3)][:3]]
    validate_traces(v, "Trace_Config", C19_CLAUSES, recs, site_c19,
                    what_fn=lambda r, c: f"cls={r['cls']} varied={r['meta'].get('varied')} {r['meta'].get('exception', '')[:120]}")
    v.assumptions += ["TLC, CommunityModules", "Params / Saved / Default of Config.tla are extracted from the tree (inspect.signature, keys of the YAML "
                      "representation); MetricZeroTPEdgeCaseHandling.default_result is a constructor convenience, not saved state",
                      "values the constructors normalise (LabelGroup label sets) are compared in normalised form; explicit None arguments the "
                      "constructor replaces by default objects are compared through the object's own report"]
