"""Recording executions of the real pipeline code as trace records for the Trace_*.tla specs."""
from __future__ import annotations

import json

import math
import traceback
from fractions import Fraction

import numpy as np

from . import drive  # noqa: F401  (imports panoptica quietly)
from .drive import quiet, mem_limit
from .project import TOK, flat, lcm_list, milli_record, rank_map, rat_record, shape_of, var_record

from panoptica import (InputType, Metric, MetricMode, NaiveThresholdMatching, Panoptica_Evaluator,
                       UnmatchedInstancePair, ConnectedComponentsInstanceApproximator, CCABackend,
                       SemanticPair)
from panoptica.instance_matcher import MaximizeMergeMatching
from panoptica.utils.edge_case_handling import (EdgeCaseHandler, EdgeCaseResult, MetricZeroTPEdgeCaseHandling)

METRIC = {"IOU": Metric.IOU, "DSC": Metric.DSC, "ASSD": Metric.ASSD, "RVD": Metric.RVD, "clDSC": Metric.clDSC}


def make_matcher(kind: str, mm: str, thr):
    t = thr[0] / thr[1]
    if kind == "naive":
        return NaiveThresholdMatching(matching_metric=METRIC[mm], matching_threshold=t, allow_many_to_one=False)
    if kind == "m2o":
        return NaiveThresholdMatching(matching_metric=METRIC[mm], matching_threshold=t, allow_many_to_one=True)
    if kind == "merge":
        return MaximizeMergeMatching(matching_metric=METRIC[mm], matching_threshold=t)
    raise ValueError(kind)


def _dtype_for(a, dtype):
    return np.asarray(a).astype(dtype)


def tie_risk(pred, ref) -> int:
    """size of the largest class of candidate pairs with identical (|R|, |P|, |R n P|): an upper bound of the
    number of mutually tied candidates the specification has to branch over (2^k states).  Inputs beyond
    TIE_LIMIT are not handed to TLC (counted as skipped) - a statement about what is explored, not a verdict."""
    pred, ref = np.asarray(pred), np.asarray(ref)
    both = (pred != 0) & (ref != 0)
    if not both.any():
        return 0
    # work on ranks of the labels (raw values may not fit int64)
    _, rinv, rcnt = np.unique(ref.ravel(), return_inverse=True, return_counts=True)
    _, pinv, pcnt = np.unique(pred.ravel(), return_inverse=True, return_counts=True)
    b = both.ravel()
    pairs, counts = np.unique(np.stack([rinv[b], pinv[b]], axis=1), axis=0, return_counts=True)
    from collections import Counter
    c = Counter((int(rcnt[a]), int(pcnt[p]), int(n)) for (a, p), n in zip(pairs, counts))
    return max(c.values())


TIE_LIMIT = 18
LAYOUTS = ("C", "F", "T-view", "negstride", "strided")


def relayout(a: np.ndarray, layout: str) -> np.ndarray:
    """the same logical array in another memory layout"""
    if layout == "F":
        return np.asfortranarray(a)
    if layout == "T-view":
        return np.ascontiguousarray(a.T).T           # C-contiguous data of the transpose, viewed back
    if layout == "negstride":
        return np.ascontiguousarray(np.flip(a, axis=0))[::-1]
    if layout == "strided":
        big = np.zeros(tuple(2 * s for s in a.shape), dtype=a.dtype)
        sl = tuple(slice(None, None, 2) for _ in a.shape)
        big[sl] = a
        return big[sl]
    return a


def rec_match(pred, ref, kind: str, mm: str, thr, chain=(), dtype=np.uint8, meta=None, layout="C", history=()) -> dict:
    """One call of match_instances (plus the same input at the thresholds of `chain`).
    history: matchings (kind, metric, threshold) done before ON THE SAME PAIR OBJECT, results discarded;
    with a history the judged calls use that very object too (a pair that was matched before is as
    valid an input as a fresh one)."""
    pred = relayout(_dtype_for(pred, dtype), layout)
    ref = relayout(_dtype_for(ref, dtype), layout)
    rec = {"shape": shape_of(ref), "matcher": kind, "mm": mm, "thr": list(thr), "out": "ok",
           "mp": [], "mr": [], "chain": [], "meta": dict(meta or {})}
    rec["meta"].update({"dtype": str(np.dtype(dtype)), "raw_pred": pred.ravel().tolist(),
                        "raw_ref": ref.ravel().tolist(), "layout": layout, "tie_risk": tie_risk(pred, ref),
                        "history": [[hk, hm, list(ht)] for hk, hm, ht in history]})
    outs = []
    try:
        with quiet(), mem_limit():
            shared = None
            if history:
                shared = UnmatchedInstancePair(relayout(pred.copy(), layout), relayout(ref.copy(), layout))
                for hk, hm, ht in history:
                    try:
                        make_matcher(hk, hm, ht).match_instances(shared)
                    except Exception:  # noqa: BLE001   (whether THAT call works is another record's business)
                        pass
            for t in [thr] + list(chain):
                pair = shared if shared is not None else UnmatchedInstancePair(relayout(pred.copy(), layout), relayout(ref.copy(), layout))
                m = make_matcher(kind, mm, t).match_instances(pair)
                outs.append((t, np.asarray(m.prediction_arr), np.asarray(m.reference_arr)))
    except Exception as e:  # noqa: BLE001  an exception is an observation (C03: must terminate with a result)
        rec["out"] = "raise"
        rec["meta"]["exception"] = f"{type(e).__name__}: {e}"[:300]
        rec["meta"]["tb"] = traceback.format_exc()[-600:]
    arrays = [pred, ref] + [x for o in outs for x in (o[1], o[2])]
    rmap = rank_map(*arrays)
    rec["pr"] = flat(pred, rmap)
    rec["rf"] = flat(ref, rmap)
    if rec["out"] == "ok":
        rec["mp"] = flat(outs[0][1], rmap)
        rec["mr"] = flat(outs[0][2], rmap)
        rec["meta"]["raw_mp"] = outs[0][1].ravel().tolist()
        if outs[0][1].shape != ref.shape:
            rec["out"] = "raise"
            rec["meta"]["exception"] = "shape of matched prediction differs from input"
        rec["chain"] = [{"thr": list(t), "mp": flat(mp, rmap)} for (t, mp, _) in outs[1:]]
    return rec


# --------------------------------------------------------------------------------------
# evaluate(): configuration records <-> real objects, result projection
# --------------------------------------------------------------------------------------
SCEN = ("NO_INSTANCES", "EMPTY_PRED", "EMPTY_REF", "NORMAL")
DEFAULT_ZT = {
    "DSC": {"NO_INSTANCES": "NAN", "EMPTY_PRED": "ZERO", "EMPTY_REF": "ZERO", "NORMAL": "ZERO"},
    "clDSC": {"NO_INSTANCES": "NAN", "EMPTY_PRED": "ZERO", "EMPTY_REF": "ZERO", "NORMAL": "ZERO"},
    "IOU": {"NO_INSTANCES": "NAN", "EMPTY_PRED": "ZERO", "EMPTY_REF": "ZERO", "NORMAL": "ZERO"},
    "ASSD": {"NO_INSTANCES": "NAN", "EMPTY_PRED": "INF", "EMPTY_REF": "INF", "NORMAL": "INF"},
    "RVD": {"NO_INSTANCES": "NAN", "EMPTY_PRED": "NAN", "EMPTY_REF": "NAN", "NORMAL": "NAN"},
}
DEFAULT_H = {"zt": DEFAULT_ZT, "estd": "NAN"}
SQ_KEY = {"IOU": "sq", "DSC": "sq_dsc", "ASSD": "sq_assd", "RVD": "sq_rvd", "clDSC": "sq_cldsc"}
PQ_KEY = {"IOU": "pq", "DSC": "pq_dsc", "clDSC": "pq_cldsc"}
INPUT = {"SEM": InputType.SEMANTIC, "UNM": InputType.UNMATCHED_INSTANCE, "MAT": InputType.MATCHED_INSTANCE}
BACKEND = {"default": None, "cc3d": CCABackend.cc3d, "scipy": CCABackend.scipy}


def default_cfg(**kw) -> dict:
    c = {"input": "UNM", "backend": "default", "matcher": "naive", "mm": "IOU", "thr": [1, 2],
         "dm": "NONE", "dthr": [0, 1], "im": ["DSC", "IOU", "ASSD", "RVD"], "gm": ["DSC"],
         "h": DEFAULT_H}
    c.update(kw)
    return c


def make_handler(h: dict) -> EdgeCaseHandler:
    """The same per-metric table can be written down in several documented ways: all four scenario
    results spelled out, or a default result plus the scenarios that differ from it (in any choice of
    default).  Which way is used is a deterministic function of the table, so a record is reproducible."""
    import zlib
    arg = {"NO_INSTANCES": "no_instances_result", "EMPTY_PRED": "empty_prediction_result", "EMPTY_REF": "empty_reference_result",
           "NORMAL": "normal"}
    zt = {}
    for m, row in h["zt"].items():
        style = zlib.crc32(json.dumps([m, row], sort_keys=True).encode()) % 3
        if style == 0:
            kw = {arg[sc]: EdgeCaseResult[row[sc]] for sc in arg}
        else:
            vals = [row[sc] for sc in arg]
            default = max(sorted(set(vals)), key=vals.count) if style == 1 else row["NORMAL"]
            kw = {"default_result": EdgeCaseResult[default]}
            kw.update({arg[sc]: EdgeCaseResult[row[sc]] for sc in arg if row[sc] != default})
        zt[METRIC[m]] = MetricZeroTPEdgeCaseHandling(**kw)
    return EdgeCaseHandler(listmetric_zeroTP_handling=zt, empty_list_std=EdgeCaseResult[h["estd"]])


def make_evaluator(cfg: dict, groups=None, **extra) -> Panoptica_Evaluator:
    return Panoptica_Evaluator(
        expected_input=INPUT[cfg["input"]],
        # "default" = the documented default choice, asked for either by cca_backend=None or by not passing the
        # argument at all (which of the two: a deterministic function of the configuration)
        instance_approximator=(ConnectedComponentsInstanceApproximator()
                               if cfg["backend"] == "default" and (len(cfg["im"]) + len(cfg["gm"]) + cfg["thr"][0]) % 2 == 0
                               else ConnectedComponentsInstanceApproximator(cca_backend=BACKEND[cfg["backend"]])),
        instance_matcher=make_matcher(cfg["matcher"], cfg["mm"], cfg["thr"]),
        edge_case_handler=make_handler(cfg["h"]),
        segmentation_class_groups=groups,
        instance_metrics=[METRIC[m] for m in cfg["im"]],
        global_metrics=[METRIC[m] for m in cfg["gm"]],
        decision_metric=None if cfg["dm"] == "NONE" else METRIC[cfg["dm"]],
        decision_threshold=None if cfg["dm"] == "NONE" else cfg["dthr"][0] / cfg["dthr"][1],
        **extra)


def _safe_get(res, key):
    try:
        return True, getattr(res, key)
    except Exception:  # noqa: BLE001  (an uncomputable metric is reported as absent)
        return False, None


def project_result(res, cfg: dict, nvox: int) -> dict:
    """PanopticaResult -> the res record of PipelineOps.tla (value records)."""
    out = {"nref": int(res.num_ref_instances), "npred": int(res.num_pred_instances), "tp": int(res.tp)}
    ok, fp = _safe_get(res, "fp")
    out["fp"] = int(fp) if ok and fp is not None else -999
    ok, fn = _safe_get(res, "fn")
    out["fn"] = int(fn) if ok and fn is not None else -999
    ninst = max(1, out["nref"] + out["npred"])
    ok, rq = _safe_get(res, "rq")
    out["rq"] = rat_record(rq, 4 * ninst + 4) if ok else TOK("absent")
    lists, sq, std, pq = {}, {}, {}, {}
    for m in cfg["im"]:
        try:
            vals = list(res.get_list_metric(METRIC[m], MetricMode.ALL))
        except Exception:  # noqa: BLE001
            vals = None
        if vals is None:
            lists[m] = [TOK("absent")]
            sq[m] = std[m] = TOK("absent")
            continue
        if m == "ASSD":
            lists[m] = [milli_record(v) for v in vals]
            ok, v = _safe_get(res, SQ_KEY[m])
            sq[m] = milli_record(v) if ok else TOK("absent")
            ok, v = _safe_get(res, SQ_KEY[m] + "_std")
            if ok and v is not None and not (isinstance(v, float) and (math.isnan(v) or math.isinf(v))) and len(vals) > 0:
                std[m] = TOK("skip")
            else:
                std[m] = rat_record(v, 1) if ok else TOK("absent")
        else:
            recs = [rat_record(v, 2 * nvox) for v in vals]
            lists[m] = recs
            dens = [r["v"][1] for r in recs if r["k"] == "rat"]
            L = lcm_list(dens) if dens else 1
            n = max(1, len(vals))
            ok, v = _safe_get(res, SQ_KEY[m])
            if not ok:
                sq[m] = TOK("absent")
            elif len(vals) > 0 and L * n > 10**6:
                sq[m] = TOK("skip")
            else:
                sq[m] = rat_record(v, L * n)
            ok, v = _safe_get(res, SQ_KEY[m] + "_std")
            if not ok:
                std[m] = TOK("absent")
            elif len(vals) > 0 and (L * n) ** 2 * n > 10**6:
                std[m] = TOK("skip")
            else:
                std[m] = var_record(v, (L * n) ** 2 * n)
        if m in PQ_KEY:
            ok, v = _safe_get(res, PQ_KEY[m])
            if not ok:
                pq[m] = TOK("absent")
            elif sq[m]["k"] == "skip":
                pq[m] = TOK("skip")
            else:
                d = (sq[m]["v"][1] if sq[m]["k"] == "rat" else 1) * (out["rq"]["v"][1] if out["rq"]["k"] == "rat" else 1)
                pq[m] = rat_record(v, d) if d < 2**30 else TOK("skip")
    out.update({"lists": lists, "sq": sq, "std": std, "pq": pq})
    glob = {}
    for m in cfg["gm"]:
        ok, v = _safe_get(res, f"global_bin_{m.lower()}")
        if not ok:
            glob[m] = TOK("absent")
        elif m == "ASSD":
            glob[m] = milli_record(v)
        else:
            glob[m] = rat_record(v, 2 * nvox)
    out["glob"] = glob
    # TLC cannot read empty JSON objects as records: keep every map non-empty
    for k in ("lists", "sq", "std", "pq", "glob"):
        if not out[k]:
            out[k] = {"_": TOK("skip")} if k != "lists" else {"_": []}
    return out


def rec_evaluate(pred, ref, cfg: dict, dtype=np.uint8, meta=None, evaluator=None, group="ungrouped",
                 transform=None, groupdef=None) -> dict:
    """One call of Panoptica_Evaluator.evaluate, projected.
    groupdef = (labels of the group looked at, labels of all groups, kind) for class-group runs."""
    pred = np.asarray(pred).astype(dtype)
    ref = np.asarray(ref).astype(dtype)
    glabels, gall, gkind = groupdef if groupdef else ([], [], "plain")
    rmap = rank_map(pred, ref, np.array(list(glabels) + list(gall) + [0]))
    rec = {"shape": shape_of(ref), "pred": flat(pred, rmap), "ref": flat(ref, rmap), "cfg": cfg, "out": "ok",
           "res": None, "glabels": [rmap[int(x)] for x in glabels], "gall": [rmap[int(x)] for x in gall], "gkind": gkind,
           "rel": "none", "outb": "ok", "resb": EMPTY_RES, "meta": dict(meta or {})}
    rec["meta"].update({"dtype": str(np.dtype(dtype)), "raw_pred": pred.ravel().tolist(),
                        "raw_ref": ref.ravel().tolist(), "tie_risk": 0 if cfg["input"] == "MAT" else tie_risk(pred, ref)})
    out, res_rec, exc = run_evaluate(pred, ref, cfg, evaluator=evaluator, group=group, transform=transform)
    rec["out"] = out
    rec["res"] = res_rec
    if exc:
        rec["meta"].update(exc)
    return rec


def run_evaluate(pred, ref, cfg, evaluator=None, group="ungrouped", transform=None):
    """-> (out, projected result, exception info)"""
    p_in, r_in = (pred, ref) if transform is None else transform(pred, ref)
    try:
        with quiet(), mem_limit():
            ev = evaluator if evaluator is not None else make_evaluator(cfg)
            out = ev.evaluate(p_in, r_in, verbose=False)
            res = out[group][0]
        return "ok", project_result(res, cfg, int(np.prod(np.asarray(ref).shape))), None
    except Exception as e:  # noqa: BLE001
        return "raise", EMPTY_RES, {"exception": f"{type(e).__name__}: {e}"[:300], "tb": traceback.format_exc()[-800:]}


def attach_b(rec: dict, rel: str, outb: str, resb: dict, excb=None, meta=None) -> dict:
    rec["rel"] = rel
    rec["outb"] = outb
    rec["resb"] = resb
    if excb:
        rec["meta"]["exception_b"] = excb.get("exception")
    if meta:
        rec["meta"].update(meta)
    return rec


EMPTY_RES = {"nref": 0, "npred": 0, "tp": 0, "fp": 0, "fn": 0, "rq": TOK("absent"), "lists": {"_": []},
             "sq": {"_": TOK("skip")}, "std": {"_": TOK("skip")}, "pq": {"_": TOK("skip")},
             "glob": {"_": TOK("skip")}}


# --------------------------------------------------------------------------------------
# large-scale runs projected to the contingency table (Trace_EvalCT.tla)
# --------------------------------------------------------------------------------------
def rec_evaluate_ct(pred, ref, cfg: dict, dtype=np.uint16, meta=None) -> dict:
    pred = np.asarray(pred).astype(dtype)
    ref = np.asarray(ref).astype(dtype)
    rl = [int(x) for x in np.unique(ref) if x]
    pl = [int(x) for x in np.unique(pred) if x]
    ri = {v: i + 1 for i, v in enumerate(rl)}
    pi = {v: i + 1 for i, v in enumerate(pl)}
    sr = [int((ref == v).sum()) for v in rl]
    sp = [int((pred == v).sum()) for v in pl]
    both = (ref != 0) & (pred != 0)
    pairs, counts = np.unique(np.stack([ref[both].astype(np.uint64), pred[both].astype(np.uint64)], axis=1), axis=0, return_counts=True)
    inter = [{"r": ri[int(a)], "p": pi[int(b)], "n": int(n)} for (a, b), n in zip(pairs, counts)]
    same = [{"r": ri[v], "p": pi[v]} for v in rl if v in pi]
    n = int(ref.size)
    rec = {"sr": sr, "sp": sp, "inter": inter or [], "same": same or [], "cfg": cfg, "out": "ok", "res": EMPTY_RES,
           "meta": dict(meta or {})}
    rec["meta"].update({"dtype": str(np.dtype(dtype)), "shape": list(ref.shape), "n_ref": len(rl), "n_pred": len(pl),
                        "max_count": max(sr + sp + [0])})
    out, res_rec, exc = run_evaluate(pred, ref, cfg)
    rec["out"], rec["res"] = out, res_rec
    if exc:
        rec["meta"].update(exc)
    if out == "ok":
        # aggregate fields are not judged at this scale (exact denominators exceed TLC's integers)
        for k in ("sq", "std", "pq"):
            rec["res"][k] = {m: TOK("skip") for m in rec["res"][k]}
    return rec
