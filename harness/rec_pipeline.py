"""Recording executions of the real pipeline code as trace records for the Trace_*.tla specs."""
from __future__ import annotations

import math
import traceback
from fractions import Fraction

import numpy as np

from . import drive  # noqa: F401  (imports panoptica quietly)
from .drive import quiet
from .project import TOK, flat, lcm_list, milli_record, rank_map, rat_record, shape_of, var_record

from panoptica import (InputType, Metric, MetricMode, NaiveThresholdMatching, Panoptica_Evaluator,
                       UnmatchedInstancePair, ConnectedComponentsInstanceApproximator, CCABackend,
                       SemanticPair)
from panoptica.instance_matcher import MaximizeMergeMatching
from panoptica.utils.edge_case_handling import (EdgeCaseHandler, EdgeCaseResult, MetricZeroTPEdgeCaseHandling)

METRIC = {"IOU": Metric.IOU, "DSC": Metric.DSC, "ASSD": Metric.ASSD, "RVD": Metric.RVD, "clDSC": Metric.clDSC}


def make_matcher(kind: str, mm: str, thr):
    t = thr[0] / thr[1]
    if kind == "naive":
        return NaiveThresholdMatching(matching_metric=METRIC[mm], matching_threshold=t, allow_many_to_one=False)
    if kind == "m2o":
        return NaiveThresholdMatching(matching_metric=METRIC[mm], matching_threshold=t, allow_many_to_one=True)
    if kind == "merge":
        return MaximizeMergeMatching(matching_metric=METRIC[mm], matching_threshold=t)
    raise ValueError(kind)


def _dtype_for(a, dtype):
    return np.asarray(a).astype(dtype)


def rec_match(pred, ref, kind: str, mm: str, thr, chain=(), dtype=np.uint8, meta=None) -> dict:
    """One call of match_instances (plus the same input at the thresholds of `chain`)."""
    pred = _dtype_for(pred, dtype)
    ref = _dtype_for(ref, dtype)
    rec = {"shape": shape_of(ref), "matcher": kind, "mm": mm, "thr": list(thr), "out": "ok",
           "mp": [], "mr": [], "chain": [], "meta": dict(meta or {})}
    rec["meta"].update({"dtype": str(np.dtype(dtype)), "raw_pred": pred.ravel().tolist(),
                        "raw_ref": ref.ravel().tolist()})
    outs = []
    try:
        with quiet():
            for t in [thr] + list(chain):
                pair = UnmatchedInstancePair(pred.copy(), ref.copy())
                m = make_matcher(kind, mm, t).match_instances(pair)
                outs.append((t, np.asarray(m.prediction_arr), np.asarray(m.reference_arr)))
    except Exception as e:  # noqa: BLE001  an exception is an observation (C03: must terminate with a result)
        rec["out"] = "raise"
        rec["meta"]["exception"] = f"{type(e).__name__}: {e}"[:300]
        rec["meta"]["tb"] = traceback.format_exc()[-600:]
    arrays = [pred, ref] + [x for o in outs for x in (o[1], o[2])]
    rmap = rank_map(*arrays)
    rec["pr"] = flat(pred, rmap)
    rec["rf"] = flat(ref, rmap)
    if rec["out"] == "ok":
        rec["mp"] = flat(outs[0][1], rmap)
        rec["mr"] = flat(outs[0][2], rmap)
        rec["meta"]["raw_mp"] = outs[0][1].ravel().tolist()
        if outs[0][1].shape != ref.shape:
            rec["out"] = "raise"
            rec["meta"]["exception"] = "shape of matched prediction differs from input"
        rec["chain"] = [{"thr": list(t), "mp": flat(mp, rmap)} for (t, mp, _) in outs[1:]]
    return rec
