"""Uncontrolled aggregator runs in a fresh interpreter, the way the repository's example distributes
work: forked worker processes (NonDaemonicPool, ProcessPoolExecutor) or a thread pool.
usage: python -m harness.aggstress <nondaemonic|future|threads|reopen|reopen-keep> <dir> <name,name,...>
(reopen: one process creates an aggregator on the same output file again and again - the earlier object
dropped and collected, or kept alive - and resubmits the subjects: a notebook cell run twice)
prints one JSON line: the AggObs trace (a single event: the final files)."""
from __future__ import annotations

import contextlib
import io
import json
import os
import sys
from pathlib import Path

os.environ.setdefault("PANOPTICA_CITATION_REMINDER", "false")
_real_stdout = sys.stdout
sys.stdout = open(os.devnull, "w")

from harness import aggctl  # noqa: E402
from harness.aggctl import make_evaluator, read_lines, reference_rows, subject_arrays  # noqa: E402

AGG = None


def work(name):
    p, r = subject_arrays(name)
    AGG.evaluate(p, r, name)
    return name


def main():
    global AGG
    mode, d, names = sys.argv[1], Path(sys.argv[2]), sys.argv[3].split(",")
    header, rows = reference_rows(sorted(set(names)), d)
    from panoptica import Panoptica_Aggregator
    out = d / "out.tsv"
    failed = 0
    if mode in ("reopen", "reopen-keep"):
        import gc
        uniq = list(dict.fromkeys(names))
        keep = []
        ev = make_evaluator()
        try:
            AGG = Panoptica_Aggregator(ev, str(out))
            for n in uniq[:2]:
                work(n)
            for rnd in range(2):
                if mode == "reopen-keep":
                    keep.append(AGG)
                AGG = Panoptica_Aggregator(ev, str(out))      # again, on the same file; the old object is garbage
                if mode == "reopen":
                    gc.collect()
                for n in uniq[: 3 + rnd * 10]:                 # everything submitted so far again, plus new subjects
                    work(n)
                gc.collect()
        except BaseException as e:  # noqa: BLE001
            failed = 1
            sys.stderr.write(f"reopen failed: {type(e).__name__}: {e}\n")
    else:
        AGG = Panoptica_Aggregator(make_evaluator(), str(out))
    if mode in ("reopen", "reopen-keep"):
        pass
    elif mode == "nondaemonic":
        from panoptica.utils import NonDaemonicPool
        with NonDaemonicPool(6) as pool:
            pool.map(work, names)
    elif mode == "future":
        from concurrent.futures import ProcessPoolExecutor
        import multiprocessing
        with ProcessPoolExecutor(max_workers=6, mp_context=multiprocessing.get_context("fork")) as ex:
            list(ex.map(work, names))
    else:
        from multiprocessing.pool import ThreadPool
        with ThreadPool(6) as pool:
            pool.map(work, names)
    snap = []
    try:
        st = AGG.make_statistic()
        snap = [{"out": "out_A", "rows": list(st.subjectnames), "seen": list(st.subjectnames)}]
    except Exception:  # noqa: BLE001
        pass
    files = {"out_A": read_lines(out, header, rows, True)}
    obs = {"outs": ["out_A"], "subjects": {"out_A": sorted(set(names))}, "prior": [],
           "init": {"out_A": {"ex": False, "ls": []}}, "ev": [{"files": files, "snaps": snap, "mid": [], "failed": failed}], "ends": [1], "foreign": False, "ctorfailed": False}
    _real_stdout.write(json.dumps({"mode": mode, "names": names, "obs": obs}) + "\n")
    _real_stdout.flush()


if __name__ == "__main__":
    main()
