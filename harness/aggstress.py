"""Uncontrolled aggregator runs in a fresh interpreter, the way the repository's example distributes
work: forked worker processes (NonDaemonicPool, ProcessPoolExecutor) or a thread pool.
usage: python -m harness.aggstress <nondaemonic|future|threads> <dir> <name,name,...>
prints one JSON line: the AggObs trace (a single event: the final files)."""
from __future__ import annotations

import contextlib
import io
import json
import os
import sys
from pathlib import Path

os.environ.setdefault("PANOPTICA_CITATION_REMINDER", "false")
_real_stdout = sys.stdout
sys.stdout = open(os.devnull, "w")

from harness import aggctl  # noqa: E402
from harness.aggctl import make_evaluator, read_lines, reference_rows, subject_arrays  # noqa: E402

AGG = None


def work(name):
    p, r = subject_arrays(name)
    AGG.evaluate(p, r, name)
    return name


def main():
    global AGG
    mode, d, names = sys.argv[1], Path(sys.argv[2]), sys.argv[3].split(",")
    header, rows = reference_rows(sorted(set(names)), d)
    from panoptica import Panoptica_Aggregator
    out = d / "out.tsv"
    AGG = Panoptica_Aggregator(make_evaluator(), str(out))
    if mode == "nondaemonic":
        from panoptica.utils import NonDaemonicPool
        with NonDaemonicPool(6) as pool:
            pool.map(work, names)
    elif mode == "future":
        from concurrent.futures import ProcessPoolExecutor
        import multiprocessing
        with ProcessPoolExecutor(max_workers=6, mp_context=multiprocessing.get_context("fork")) as ex:
            list(ex.map(work, names))
    else:
        from multiprocessing.pool import ThreadPool
        with ThreadPool(6) as pool:
            pool.map(work, names)
    snap = []
    try:
        st = AGG.make_statistic()
        snap = [{"out": "out_A", "rows": list(st.subjectnames), "seen": list(st.subjectnames)}]
    except Exception:  # noqa: BLE001
        pass
    files = {"out_A": read_lines(out, header, rows, True)}
    obs = {"outs": ["out_A"], "subjects": {"out_A": sorted(set(names))}, "prior": [],
           "init": {"out_A": {"ex": False, "ls": []}}, "ev": [{"files": files, "snaps": snap, "mid": [], "failed": 0}], "ends": [1], "foreign": False, "ctorfailed": False}
    _real_stdout.write(json.dumps({"mode": mode, "names": names, "obs": obs}) + "\n")
    _real_stdout.flush()


if __name__ == "__main__":
    main()
