#!/bin/sh
# Run once after a fresh restore, offline: nothing is built into /repo; the checks import panoptica
# from /repo's working tree (editable install in /venv).  Verifies the tool chain and that every
# TLA+ module parses.
cd "$(dirname "$0")" || exit 2
command -v java >/dev/null || { echo "java missing"; exit 2; }
[ -f /opt/veriftools/tla/tla2tools.jar ] || { echo "tla2tools.jar missing"; exit 2; }
/venv/bin/python -c "import numpy, scipy, cc3d, skimage, panoptica" || { echo "python deps missing"; exit 2; }
mkdir -p .scratch evidence
export TRACE_FILE=/dev/null
/venv/bin/python -c "
import sys; sys.path.insert(0, '.')
from harness.common import sany_all
sany_all(); print('all TLA+ modules parse')" || exit 2
