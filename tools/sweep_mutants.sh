#!/bin/sh
# tools/sweep_mutants.sh [name...] : for every seeded change (default: all), apply it to the repo under
# test ($VERIF_REPO, default /repo), run the quick check of the property it breaks, undo it, and print
# one line per change:  <name> <property> exit=<rc> violations=<n> first=<clause>
# Meant for `vp run --with-repo -- sh -c 'export VERIF_REPO=$VP_RUN_REPO; tools/sweep_mutants.sh'`.
cd "$(dirname "$0")/.." || exit 2
REPO="${VERIF_REPO:-/repo}"
[ $# -gt 0 ] || set -- $(ls seeded)
if [ -n "$(git -C "$REPO" status --porcelain)" ]; then echo "$REPO not clean"; exit 2; fi
mkdir -p .scratch
for NAME in "$@"; do
  P=$(echo "$NAME" | cut -d- -f1)
  git -C "$REPO" apply "$PWD/seeded/$NAME/patch.diff" || { echo "$NAME $P patch-does-not-apply"; continue; }
  VERIF_SCRATCH="$PWD/.scratch/sweep" ./check "$P" --tier quick > ".scratch/sweep-$NAME.log" 2>&1
  rc=$?
  git -C "$REPO" checkout -- .
  n=$(grep -c '^VIOLATION' ".scratch/sweep-$NAME.log")
  first=$(grep -m1 'detail: clause=' ".scratch/sweep-$NAME.log" | sed 's/.*clause=\([A-Za-z_0-9]*\).*/\1/')
  echo "$NAME $P exit=$rc violations=$n first=$first"
done
git checkout -- evidence 2>/dev/null
rm -rf replays
