#!/bin/sh
# tools/run_mutant.sh <seeded name> <property id>... : apply the seeded change to /repo, run the
# quick checks of the given properties, undo the change straight afterwards.
NAME="$1"; shift
cd /verif || exit 2
if [ -n "$(git -C /repo status --porcelain)" ]; then echo "/repo not clean"; exit 2; fi
git -C /repo apply "/verif/seeded/$NAME/patch.diff" || { echo "patch does not apply"; exit 2; }
for P in "$@"; do
  VERIF_SCRATCH=/verif/.scratch/mut ./check "$P" --tier "${TIER:-quick}" > .scratch/mut-$NAME-$P.log 2>&1
  rc=$?
  echo "$NAME $P exit=$rc $(grep -c '^VIOLATION' .scratch/mut-$NAME-$P.log) violations; first: $(grep -m1 -A1 '^VIOLATION\|MACHINERY' .scratch/mut-$NAME-$P.log | tr '\n' ' ' | cut -c1-260)"
done
git -C /repo checkout -- .
git -C /verif checkout -- evidence 2>/dev/null
rm -rf /verif/replays
