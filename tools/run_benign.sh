#!/bin/sh
# tools/run_benign.sh <patch file> <property id>... : apply a behaviour-preserving change to /repo,
# run the quick checks of the given properties (any VIOLATION is a false alarm of the machinery),
# undo the change straight afterwards.
PATCH="$1"; shift
TAG=$(basename "$(dirname "$PATCH")")
cd /verif || exit 2
if [ -n "$(git -C /repo status --porcelain)" ]; then echo "/repo not clean"; exit 2; fi
git -C /repo apply "$PATCH" || { echo "patch does not apply"; exit 2; }
for P in "$@"; do
  VERIF_SCRATCH=/verif/.scratch/ben ./check "$P" --tier "${TIER:-quick}" > .scratch/ben-$TAG-$P.log 2>&1
  rc=$?
  echo "$TAG $P exit=$rc $(grep -c '^VIOLATION' .scratch/ben-$TAG-$P.log) violations, $(grep -c '^DRIFT' .scratch/ben-$TAG-$P.log) drift; first: $(grep -m1 -A1 '^VIOLATION\|MACHINERY' .scratch/ben-$TAG-$P.log | tr '\n' ' ' | cut -c1-300)"
done
git -C /repo checkout -- .
git -C /verif checkout -- evidence 2>/dev/null
rm -rf /verif/replays
