#!/bin/sh
# tools/confirm_mutant.sh <deliverable dir with patch.diff demo.py meta.json> <seeded name>
# Confirms in a fresh scratch worktree of /repo HEAD: patch applies, 80 tests pass, demo FAILS with
# the patch and PASSES without it.  Then stores the mutant under /verif/seeded/<name>/.
set -u
SRC="$1"; NAME="$2"
WT=/tmp/wt/confirm-$NAME
git -C /repo worktree remove --force "$WT" >/dev/null 2>&1
git -C /repo worktree add -q --detach "$WT" HEAD || exit 2
cd "$WT" || exit 2
export PANOPTICA_CITATION_REMINDER=false PYTHONPATH="$WT"
R_CLEAN=$(timeout 300 /venv/bin/python "$SRC/demo.py" >/tmp/wt/confirm-$NAME.clean.log 2>&1; echo $?)
if ! git apply "$SRC/patch.diff"; then echo "PATCH DOES NOT APPLY"; git -C /repo worktree remove --force "$WT"; exit 1; fi
TESTS=$(timeout 900 /venv/bin/python -m pytest -q -p no:cacheprovider --timeout=900 unit_tests 2>&1 | tail -1)
R_MUT=$(timeout 300 /venv/bin/python "$SRC/demo.py" >/tmp/wt/confirm-$NAME.mut.log 2>&1; echo $?)
cd /; git -C /repo worktree remove --force "$WT"
echo "clean demo exit=$R_CLEAN  mutated demo exit=$R_MUT  tests: $TESTS"
case "$TESTS" in *"3 failed, 80 passed"*) T_OK=1;; *) T_OK=0;; esac
if [ "$R_CLEAN" = 0 ] && [ "$R_MUT" != 0 ] && [ "$T_OK" = 1 ]; then
  mkdir -p /verif/seeded/$NAME && cp "$SRC/patch.diff" "$SRC/demo.py" /verif/seeded/$NAME/ && cp "$SRC/meta.json" /verif/seeded/$NAME/agent_meta.json
  echo "CONFIRMED -> /verif/seeded/$NAME"
else
  echo "NOT CONFIRMED"; tail -5 /tmp/wt/confirm-$NAME.clean.log /tmp/wt/confirm-$NAME.mut.log
fi
