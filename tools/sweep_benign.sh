#!/bin/sh
# tools/sweep_benign.sh : apply every behaviour-preserving change under benign/ to the repo under test
# ($VERIF_REPO, default /repo), run the quick check of its property, undo it.  Any VIOLATION or
# non-zero exit is a defect of the machinery (a false alarm), never of the library.
cd "$(dirname "$0")/.." || exit 2
REPO="${VERIF_REPO:-/repo}"
if [ -n "$(git -C "$REPO" status --porcelain)" ]; then echo "$REPO not clean"; exit 2; fi
mkdir -p .scratch
for D in benign/C*-[nmq]; do
  NAME=$(basename "$D"); P=$(echo "$NAME" | cut -d- -f1)
  git -C "$REPO" apply "$PWD/$D/patch.diff" || { echo "$NAME patch-does-not-apply"; continue; }
  VERIF_SCRATCH="$PWD/.scratch/bsweep" ./check "$P" --tier quick > ".scratch/bsweep-$NAME.log" 2>&1
  rc=$?
  git -C "$REPO" checkout -- .
  echo "$NAME $P exit=$rc violations=$(grep -c '^VIOLATION' .scratch/bsweep-$NAME.log) drift=$(grep -c '^DRIFT' .scratch/bsweep-$NAME.log)"
done
git checkout -- evidence 2>/dev/null
rm -rf replays
