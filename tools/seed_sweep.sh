#!/bin/sh
# tools/seed_sweep.sh <first seed> <last seed> [ids...]: run quick checks under several seeds, report anything but OK
cd "$(dirname "$0")/.." || exit 2
A=$1; B=$2; shift 2
IDS=${*:-C01 C02 C03 C04 C05 C06 C07 C08 C09 C10 C11 C12 C13 C14 C15 C16 C17 C18 C19 C20}
for s in $(seq $A $B); do for p in $IDS; do
  out=$(VERIF_SEED=$s ./check $p --tier quick 2>&1); rc=$?
  if [ $rc -ne 0 ]; then echo "seed=$s $p exit=$rc"; echo "$out" | grep "VIOLATION\|MACHINERY\|Error" | head -3 | cut -c1-300; else echo "seed=$s $p ok $(echo "$out" | grep -c KNOWN-FINDING) known"; fi
done; done
