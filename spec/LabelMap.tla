------------------------------ MODULE LabelMap ------------------------------
(***************************************************************************)
(* InstanceLabelMap (panoptica/utils/instancelabelmap.py): the many-to-one *)
(* map from prediction labels to reference labels that the matchers fill.  *)
(* Beyond the listed properties (DESIGN 3.4): its API contract as a state  *)
(* machine.  lm is a set of pairs <<pred, ref>>, functional in pred.       *)
(*   Add(ps, r)   ps a non-empty sequence of prediction labels: entries    *)
(*                are written one by one; the first p already mapped to a  *)
(*                different reference raises - entries before it stay      *)
(*                (the implementation does not roll back)                  *)
(*   queries      contains_pred/ref, contains_and/or (None = absent        *)
(*                argument = neutral TRUE), preds of a reference           *)
(***************************************************************************)
EXTENDS Integers, Sequences, FiniteSets, TLC

Dom(lm) == {e[1] : e \in lm}
Ran(lm) == {e[2] : e \in lm}
Get(lm, p) == (CHOOSE e \in lm : e[1] = p)[2]
Put(lm, p, r) == {e \in lm : e[1] # p} \cup {<<p, r>>}
Functional(lm) == \A e, f \in lm : e[1] = f[1] => e[2] = f[2]

Conflicts(lm, p, r) == p \in Dom(lm) /\ Get(lm, p) # r
RECURSIVE AddSeq(_, _, _)
\* result: [lm, ok]
AddSeq(lm, ps, r) ==
    IF ps = <<>> THEN [lm |-> lm, ok |-> TRUE]
    ELSE IF Conflicts(lm, Head(ps), r) THEN [lm |-> lm, ok |-> FALSE]
    ELSE AddSeq(Put(lm, Head(ps), r), Tail(ps), r)

NoneV == -1     \* an absent optional argument
ContainsPred(lm, p) == p \in Dom(lm)
ContainsRef(lm, r)  == r \in Ran(lm)
ContainsAnd(lm, p, r) == (p = NoneV \/ p \in Dom(lm)) /\ (r = NoneV \/ r \in Ran(lm))
ContainsOr(lm, p, r)  == (p = NoneV \/ p \in Dom(lm)) \/ (r = NoneV \/ r \in Ran(lm))
PredsOfRef(lm, r) == {e[1] : e \in {x \in lm : x[2] = r}}

(***************************************************************************)
(* State machine (model-checked over small label sets).                    *)
(***************************************************************************)
CONSTANTS Preds, Refs, MaxOps
VARIABLES lm, n, lastok
Init == lm = {} /\ n = 0 /\ lastok = TRUE
Seqs == UNION {[1..k -> Preds] : k \in 1..2}
Add(ps, r) == /\ n < MaxOps /\ n' = n + 1
              /\ LET res == AddSeq(lm, ps, r) IN lm' = res.lm /\ lastok' = res.ok
Next == \E ps \in Seqs, r \in Refs : Add(ps, r)
Spec == Init /\ [][Next]_<<lm, n, lastok>>
InvFunctional == Functional(lm)
\* once a prediction is mapped, its reference never changes
Stable == [][\A e \in lm : e \in lm']_<<lm, n, lastok>>
\* the two composite queries are what their names say
QueriesConsistent == \A p \in Preds \cup {NoneV}, r \in Refs \cup {NoneV} :
    /\ ContainsAnd(lm, p, r) => ContainsOr(lm, p, r)
    /\ (p # NoneV /\ r # NoneV) => (ContainsAnd(lm, p, r) <=> (ContainsPred(lm, p) /\ ContainsRef(lm, r)))
=============================================================================
