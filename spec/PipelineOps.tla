---------------------------- MODULE PipelineOps ----------------------------
(***************************************************************************)
(* The phases of panoptica's evaluation pipeline as operators over label   *)
(* maps on a voxel grid: instance approximation (connected components),    *)
(* candidate scan, the greedy matcher loops (naive one-to-one, naive       *)
(* many-to-one, merge), relabelling, per-instance evaluation with optional *)
(* decision threshold, and result construction (tp/fp/fn, sq/rq/pq, edge   *)
(* cases, global binary metrics).                                          *)
(*                                                                         *)
(* Pipeline.tla turns these operators into a state machine (one action per *)
(* phase / loop iteration); Trace_*.tla use the very same operators to     *)
(* judge recorded executions of the real code.                             *)
(*                                                                         *)
(* A label map is a sequence over 1..N (Grid.tla).  The matcher's label    *)
(* map lm is a set of pairs <<ref label, pred label>>.                     *)
(***************************************************************************)
EXTENDS Integers, Sequences, SequencesExt, FiniteSets, FiniteSetsExt, Rat, Grid, Metrics, EdgeCases

RECURSIVE SeqOfSetG(_)
SeqOfSetG(S) == IF S = {} THEN <<>> ELSE LET x == CHOOSE y \in S : TRUE IN <<x>> \o SeqOfSetG(S \ {x})

(***************************************************************************)
(* Phase 1 - instance approximation.                                       *)
(***************************************************************************)
ResolveBackend(backend, shape) ==
    IF backend = "default" THEN (IF Len(shape) >= 3 THEN "cc3d" ELSE "scipy") ELSE backend

\* cc3d: full (8/26) connectivity, never joins different semantic labels;
\* scipy: face (4/6) connectivity on the binarised map.
InstParts(backend, shape, sem) ==
    IF backend = "cc3d"
    THEN UNION {Components("full", shape, Sel(sem, l)) : l \in Labels(sem)}
    ELSE Components("face", shape, Fg(sem))

MinOf(c) == MinInt(c)
\* canonical numbering of a partition: by smallest voxel index
LabelBy(parts, n) ==
    LET ps == SortSeq(SeqOfSetG(parts), LAMBDA a, b : MinInt(a) < MinInt(b)) IN
    [v \in 1..n |->
        LET idx == {i \in 1..Len(ps) : v \in ps[i]} IN
        IF idx = {} THEN 0 ELSE CHOOSE i \in idx : TRUE]

Approximate(backend, shape, sem) == LabelBy(InstParts(ResolveBackend(backend, shape), shape, sem), Len(sem))

\* the property of C05, stated on an arbitrary candidate labelling inst with reported count n
IsCCLabelling(backend, shape, sem, inst, n) ==
    LET kind == IF backend = "cc3d" THEN "full" ELSE "face"
        sameClass(u, v) == IF backend = "cc3d" THEN sem[u] = sem[v] ELSE TRUE
    IN /\ Fg(inst) = Fg(sem)
       /\ Labels(inst) = 1..n
       /\ \A l \in Labels(inst) : IsConnected(kind, shape, Sel(inst, l))
       /\ \A l \in Labels(inst) : \A u, v \in Sel(inst, l) : sameClass(u, v)
       /\ \A u \in Fg(inst) : \A v \in NbrsOf(kind, shape, u) \cap Fg(inst) : sameClass(u, v) => inst[u] = inst[v]

(***************************************************************************)
(* Phase 2 - matching.                                                     *)
(***************************************************************************)
\* candidate pairs = pairs of labels that share a voxel (one pass over the voxels)
Cands(pr, rf) == {<<rf[v], pr[v]>> : v \in {w \in 1..Len(pr) : pr[w] # 0 /\ rf[w] # 0}}

ScoreMap(m, shape, pr, rf) ==
    LET selR == [r \in Labels(rf) |-> Sel(rf, r)]
        selP == [p \in Labels(pr) |-> Sel(pr, p)]
    IN [c \in Cands(pr, rf) |-> Score(m, shape, selR[c[1]], selP[c[2]])]

RefsOf(lm)      == {e[1] : e \in lm}
PredsIn(lm)     == {e[2] : e \in lm}
PredsOf(lm, r)  == {e[2] : e \in {x \in lm : x[1] = r}}

\* candidates that no remaining candidate is definitely better than (= may come next in a best-first order)
Best(m, sc, C) == {c \in C : \A d \in C : ~DefBetter(m, sc[d], sc[c])}

\* ---- naive threshold matcher -------------------------------------------
\* m2o = allow_many_to_one.  A candidate is blocked once its prediction is taken,
\* and (one-to-one only) once its reference is taken.
Blocked(m2o, lm, c) ==
    IF m2o THEN c[2] \in PredsIn(lm) ELSE c[1] \in RefsOf(lm) \/ c[2] \in PredsIn(lm)
Conflict(m2o, c, d) ==
    c # d /\ (IF m2o THEN c[2] = d[2] ELSE c[1] = d[1] \/ c[2] = d[2])

\* one iteration of the matcher loop on candidate c that beats the threshold
NaiveStep(m2o, lm, c) == IF Blocked(m2o, lm, c) THEN lm ELSE lm \cup {c}

\* All results of the loop over every best-first order of the *eligible* candidates E
\* (an ineligible candidate never changes lm, so its position is irrelevant).
\* Reference semantics: branch over every tied next candidate.
RECURSIVE NaiveAllOrders(_, _, _, _, _)
NaiveAllOrders(m2o, m, sc, lm, E) ==
    IF E = {} THEN {lm}
    ELSE UNION {NaiveAllOrders(m2o, m, sc, NaiveStep(m2o, lm, c), E \ {c}) : c \in Best(m, sc, E)}

\* Same set, computed with two sound reductions (checked equal to NaiveAllOrders by
\* MC_Matcher): blocked candidates are dropped at once (lm only grows), and a tied best
\* candidate that conflicts with no other remaining candidate is taken without branching.
\* The exploration is level-synchronous over the SET of intermediate states <<lm, remaining>>, so
\* that different tie orders reaching the same state are explored once (a tie class of k mutually
\* conflicting candidates costs at most 2^k states instead of k! paths).
NaiveSucc(m2o, m, sc, f) ==      \* f = [lm, E]
    LET E1 == {c \in f.E : ~Blocked(m2o, f.lm, c)} IN
    IF E1 = {} THEN {[lm |-> f.lm, E |-> {}]}
    ELSE LET B    == Best(m, sc, E1)
             free == {c \in B : \A d \in E1 : ~Conflict(m2o, c, d)}
         IN IF free # {} THEN {[lm |-> f.lm \cup free, E |-> E1 \ free]}
            ELSE {[lm |-> f.lm \cup {c}, E |-> E1 \ {c}] : c \in B}
RECURSIVE NaiveBfs(_, _, _, _)
NaiveBfs(m2o, m, sc, F) ==
    IF \A f \in F : f.E = {} THEN {f.lm : f \in F}
    ELSE NaiveBfs(m2o, m, sc, UNION {NaiveSucc(m2o, m, sc, f) : f \in F})
NaiveOutcomes(m2o, m, sc, lm, E) == NaiveBfs(m2o, m, sc, {[lm |-> lm, E |-> E]})

\* eligible sets: definitely-beating candidates plus any subset of the undecidable ones
\* (undecidable only arises for ASSD at milli resolution)
EligibleSets(m, sc, thr) ==
    LET D == {c \in DOMAIN sc : DefBeats(m, sc[c], thr)}
        U == {c \in DOMAIN sc : ~DefBeats(m, sc[c], thr) /\ ~DefNotBeats(m, sc[c], thr)}
    IN {D \cup X : X \in SUBSET U}

NaiveMatchSc(m2o, m, thr, sc) ==
    UNION {NaiveOutcomes(m2o, m, sc, {}, E) : E \in EligibleSets(m, sc, thr)}
NaiveMatch(m2o, m, thr, shape, pr, rf) == NaiveMatchSc(m2o, m, thr, ScoreMap(m, shape, pr, rf))

\* ---- merge matcher ------------------------------------------------------
MergedScore(m, shape, pr, rf, r, P) == Score(m, shape, Sel(rf, r), SelSet(pr, P))

\* one loop iteration; a *set* of successor label maps (two when undecidable)
MergeStep(m, thr, shape, pr, rf, sc, lm, c) ==
    LET r == c[1]  p == c[2] IN
    IF p \in PredsIn(lm) THEN {lm}
    ELSE IF r \in RefsOf(lm)
         THEN LET cur == PredsOf(lm, r)
                  old == MergedScore(m, shape, pr, rf, r, cur)
                  new == MergedScore(m, shape, pr, rf, r, cur \cup {p})
              IN IF DefBetter(m, new, old) THEN {lm \cup {c}}
                 ELSE IF DefNotBetter(m, new, old) THEN {lm}
                 ELSE {lm, lm \cup {c}}
         ELSE IF DefBeats(m, sc[c], thr) THEN {lm \cup {c}}
              ELSE IF DefNotBeats(m, sc[c], thr) THEN {lm}
              ELSE {lm, lm \cup {c}}

MergeSucc(m, thr, shape, pr, rf, sc, f) ==      \* f = [lm, C]
    LET C1 == {c \in f.C : c[2] \notin PredsIn(f.lm)} IN
    IF C1 = {} THEN {[lm |-> f.lm, C |-> {}]}
    ELSE LET B == Best(m, sc, C1)
             \* independent candidates: share neither partner with any other remaining candidate
             free == {c \in B : \A d \in C1 : d = c \/ (d[1] # c[1] /\ d[2] # c[2])}
             pick == IF free # {} THEN {CHOOSE c \in free : TRUE} ELSE B
         IN UNION {{[lm |-> lm2, C |-> C1 \ {c}] : lm2 \in MergeStep(m, thr, shape, pr, rf, sc, f.lm, c)} : c \in pick}
RECURSIVE MergeBfs(_, _, _, _, _, _, _)
MergeBfs(m, thr, shape, pr, rf, sc, F) ==
    IF \A f \in F : f.C = {} THEN {f.lm : f \in F}
    ELSE MergeBfs(m, thr, shape, pr, rf, sc, UNION {MergeSucc(m, thr, shape, pr, rf, sc, f) : f \in F})
MergeOutcomes(m, thr, shape, pr, rf, sc, lm, C) == MergeBfs(m, thr, shape, pr, rf, sc, {[lm |-> lm, C |-> C]})

MergeMatchSc(m, thr, shape, pr, rf, sc) == MergeOutcomes(m, thr, shape, pr, rf, sc, {}, DOMAIN sc)
MergeMatch(m, thr, shape, pr, rf) == MergeMatchSc(m, thr, shape, pr, rf, ScoreMap(m, shape, pr, rf))

\* the set of label maps the documented procedure allows (all tie orders)
AllowedLabelMapsSc(matcher, m, thr, shape, pr, rf, sc) ==
    CASE matcher = "naive" -> NaiveMatchSc(FALSE, m, thr, sc)
      [] matcher = "m2o"   -> NaiveMatchSc(TRUE,  m, thr, sc)
      [] matcher = "merge" -> MergeMatchSc(m, thr, shape, pr, rf, sc)
AllowedLabelMaps(matcher, m, thr, shape, pr, rf) ==
    AllowedLabelMapsSc(matcher, m, thr, shape, pr, rf, ScoreMap(m, shape, pr, rf))

(***************************************************************************)
(* The clauses of C03 / C14 on one label map lm (score map sc, threshold). *)
(* "May" versions are used so that undecidable ASSD comparisons never      *)
(* produce an alarm.                                                       *)
(***************************************************************************)
PredFunctional(lm) == \A e, f \in lm : e[2] = f[2] => e[1] = f[1]
RefInjective(lm)   == \A e, f \in lm : e[1] = f[1] => e[2] = f[2]
PairsOverlap(lm, sc) == lm \subseteq DOMAIN sc
PairsBeat(m, thr, lm, sc) == \A e \in lm : e \in DOMAIN sc => MayBeat(m, sc[e], thr)
\* no eligible pair left with both partners unassigned
Maximal(m2o, m, thr, lm, sc) ==
    \A c \in DOMAIN sc : DefBeats(m, sc[c], thr) =>
        (IF m2o THEN c[2] \in PredsIn(lm) ELSE c[1] \in RefsOf(lm) \/ c[2] \in PredsIn(lm))
\* a better pair is never displaced by a worse one: every eligible pair that is not in lm
\* conflicts with a pair of lm that is not definitely worse
Stable(m2o, m, thr, lm, sc) ==
    \A c \in DOMAIN sc : (DefBeats(m, sc[c], thr) /\ c \notin lm) =>
        \E e \in lm : e \in DOMAIN sc /\ Conflict(m2o, c, e) /\ ~DefBetter(m, sc[c], sc[e])

\* merge matcher (C14)
SeededByEligibleSingle(m, thr, lm, sc) ==
    \A r \in RefsOf(lm) : \E p \in PredsOf(lm, r) : <<r, p>> \in DOMAIN sc /\ MayBeat(m, sc[<<r, p>>], thr)
FinalAtLeastBestSeed(m, thr, shape, pr, rf, lm, sc) ==
    \A r \in RefsOf(lm) :
        LET fin == MergedScore(m, shape, pr, rf, r, PredsOf(lm, r)) IN
        /\ MayBeat(m, fin, thr)
        /\ \E p \in PredsOf(lm, r) : <<r, p>> \in DOMAIN sc /\ MayBeat(m, sc[<<r, p>>], thr)
                                     /\ ~DefBetter(m, sc[<<r, p>>], fin)

(***************************************************************************)
(* Phase 3 - relabelling the prediction (C04).  Stated as a relation       *)
(* between the unmatched pair (pr, rf) and a matched pair (mp, mr).        *)
(***************************************************************************)
\* the label map that the arrays themselves exhibit: new label is a reference label
ExhibitedLm(pr, mp, rf) == {<<mp[v], pr[v]>> : v \in {w \in Fg(pr) : mp[w] \in Labels(rf)}}

RefUnchanged(rf, mr)   == mr = rf
FgPreserved(pr, mp)    == Fg(mp) = Fg(pr)
\* every input instance stays in one piece
NoSplit(pr, mp)        == \A p \in Labels(pr) : \A u, v \in Sel(pr, p) : mp[u] = mp[v]
\* labels outside the reference labels are fresh: carried by exactly one input instance
FreshDistinct(pr, mp, rf) ==
    \A l \in Labels(mp) \ Labels(rf) : \E p \in Labels(pr) : Sel(mp, l) = Sel(pr, p)
\* merged exactly according to lm
CoarsenedBy(pr, mp, rf, lm) ==
    /\ \A e \in lm : \A v \in Sel(pr, e[2]) : mp[v] = e[1]
    /\ \A p \in Labels(pr) \ PredsIn(lm) : \A v \in Sel(pr, p) : mp[v] \notin Labels(rf)

RelabelOK(pr, rf, mp, mr, lm) ==
    /\ RefUnchanged(rf, mr) /\ FgPreserved(pr, mp) /\ NoSplit(pr, mp)
    /\ FreshDistinct(pr, mp, rf) /\ CoarsenedBy(pr, mp, rf, lm)

\* canonical relabelling: unmatched predictions get max(ref)+1, +2, ... in label order
MaxSet(S) == MaxInt(S)
Relabel(pr, rf, lm) ==
    LET base == IF Labels(rf) = {} THEN 0 ELSE MaxSet(Labels(rf))
        un   == Labels(pr) \ PredsIn(lm)
        new(p) == IF p \in PredsIn(lm) THEN (CHOOSE e \in lm : e[2] = p)[1]
                  ELSE base + Cardinality({q \in un : q <= p})
    IN [v \in 1..Len(pr) |-> IF pr[v] = 0 THEN 0 ELSE new(pr[v])]

(***************************************************************************)
(* Phase 4 - instance evaluation.  A matched situation is summarised by    *)
(*   nP, nR      the instance counts of the matched pair                   *)
(*   pairs       the set of matched instance pairs [R |-> voxels, P |-> voxels] *)
(***************************************************************************)
PairsOfMatched(mp, mr) ==
    {[R |-> Sel(mr, l), P |-> Sel(mp, l)] : l \in Labels(mp) \cap Labels(mr)}

PairsOfLm(pr, rf, lm) ==
    {[R |-> Sel(rf, r), P |-> SelSet(pr, PredsOf(lm, r))] : r \in RefsOf(lm)}
NPredAfter(pr, lm) == Cardinality(Labels(pr)) - Cardinality(PredsIn(lm)) + Cardinality(RefsOf(lm))

\* which pairs survive the decision threshold: a set of possibilities (singleton unless undecidable)
Survivors(dm, dthr, shape, pairs) ==
    IF dm = "NONE" THEN {pairs}
    ELSE LET yes == {x \in pairs : DefBeats(dm, Score(dm, shape, x.R, x.P), dthr)}
             unk == {x \in pairs : ~DefBeats(dm, Score(dm, shape, x.R, x.P), dthr)
                                   /\ ~DefNotBeats(dm, Score(dm, shape, x.R, x.P), dthr)}
         IN {yes \cup X : X \in SUBSET unk}

(***************************************************************************)
(* The whole procedure as one operator: the set of definitional outcomes   *)
(* [nP, nR, surv] over all tie orders, from the input alone.  kind is the  *)
(* input type "SEM" | "UNM" | "MAT".                                       *)
(***************************************************************************)
SituationsOf(kind, backend, matcher, mm, thr, shape, pred, ref) ==
    IF kind = "MAT"
    THEN {[nP |-> Cardinality(Labels(pred)), nR |-> Cardinality(Labels(ref)), pairs |-> PairsOfMatched(pred, ref)]}
    ELSE LET pr == IF kind = "SEM" THEN Approximate(backend, shape, pred) ELSE pred
             rf == IF kind = "SEM" THEN Approximate(backend, shape, ref)  ELSE ref
             nP == Cardinality(Labels(pr))  nR == Cardinality(Labels(rf))
         IN IF nP = 0 \/ nR = 0 THEN {[nP |-> nP, nR |-> nR, pairs |-> {}]}
            ELSE {[nP |-> NPredAfter(pr, lm), nR |-> nR, pairs |-> PairsOfLm(pr, rf, lm)]
                    : lm \in AllowedLabelMaps(matcher, mm, thr, shape, pr, rf)}

ExpectedOf(kind, backend, matcher, mm, thr, dm, dthr, shape, pred, ref) ==
    UNION {{[nP |-> s.nP, nR |-> s.nR, surv |-> sv] : sv \in Survivors(dm, dthr, shape, s.pairs)}
             : s \in SituationsOf(kind, backend, matcher, mm, thr, shape, pred, ref)}

\* what a result reports about an outcome, free of voxel coordinates and label values:
\* counts and the bag of per-instance score tuples
SummaryOf(shape, e) ==
    LET tup(x) == <<IoUSets(x.R, x.P), DiceSets(x.R, x.P), RVDSets(x.P, x.R), ASSDMilli(shape, x.R, x.P)>>
        tups == {tup(x) : x \in e.surv}
    IN [nP |-> e.nP, nR |-> e.nR, tp |-> Cardinality(e.surv),
        bag |-> [t \in tups |-> Cardinality({x \in e.surv : tup(x) = t})]]

(***************************************************************************)
(* Phase 5 - the result.  Written as *judgements* on a reported result     *)
(* record res (fields as recorded by the harness, values are value records *)
(* of EdgeCases.tla) against the definitional quantities.                  *)
(*   res.nref res.npred res.tp res.fp res.fn : integers                    *)
(*   res.rq : value record                                                 *)
(*   res.lists[m] : sequence of value records (rat, or milli for ASSD)     *)
(*   res.sq[m] res.std[m] res.pq[m] : value records (std as variance^... see below) *)
(*   res.glob[m] : value record                                            *)
(***************************************************************************)
IsRatV(x)   == x.k = "rat"
IsMilliV(x) == x.k = "milli"

\* a reported milli value x (floor(1000*real)) is compatible with the interval score s
\* widened by one unit on each side
MilliIn(x, s) == /\ s.lo[1] * 1000 <= (x + 2) * s.lo[2]
                 /\ (x - 1) * s.hi[2] <= s.hi[1] * 1000

\* does reported value record x agree with score s of metric m
ValueMatches(m, x, s) ==
    IF m = "ASSD" THEN IsMilliV(x) /\ MilliIn(x.v[1], s)
    ELSE IsRatV(x) /\ Norm(x.v) = Norm(s.lo)

\* bag matching of reported values against expected scores: exact metrics by bag
\* equality, ASSD by earliest-deadline-first interval/point matching (exact for intervals)
RECURSIVE EdfMatch(_, _)
EdfMatch(xs, ss) ==       \* xs: set of <<index, milli>>, ss: set of <<index, score>>
    IF xs = {} THEN ss = {}
    ELSE LET x  == CHOOSE a \in xs : \A b \in xs : a[2] < b[2] \/ (a[2] = b[2] /\ a[1] <= b[1])
             ok == {s \in ss : MilliIn(x[2], s[2])}
         IN ok # {} /\
            LET s == CHOOSE a \in ok : \A b \in ok :
                         Less(a[2].hi, b[2].hi) \/ (~Less(b[2].hi, a[2].hi) /\ a[1] <= b[1])
            IN EdfMatch(xs \ {x}, ss \ {s})

ListMatches(m, xs, scs) ==      \* xs: sequence of value records; scs: sequence of scores
    /\ Len(xs) = Len(scs)
    /\ IF m = "ASSD"
       THEN /\ \A i \in 1..Len(xs) : IsMilliV(xs[i])
            /\ EdfMatch({<<i, xs[i].v[1]>> : i \in 1..Len(xs)}, {<<i, scs[i]>> : i \in 1..Len(scs)})
       ELSE /\ \A i \in 1..Len(xs) : IsRatV(xs[i])
            /\ SameBag([i \in 1..Len(xs) |-> Norm(xs[i].v)], [i \in 1..Len(scs) |-> Norm(scs[i].lo)])

RECURSIVE SeqOfSet(_)
SeqOfSet(S) == IF S = {} THEN <<>> ELSE LET x == CHOOSE y \in S : TRUE IN <<x>> \o SeqOfSet(S \ {x})

ScoresOf(m, shape, pairSeq) == [i \in 1..Len(pairSeq) |-> Score(m, shape, pairSeq[i].R, pairSeq[i].P)]

\* recognition quality as a value record
RQ(tp, nP, nR) ==
    IF tp = 0 THEN (IF nP + nR > 0 THEN RatV(<<0, 1>>) ELSE Tok("nan"))
    ELSE RatV(Norm(<<2 * tp, 2 * tp + (nP - tp) + (nR - tp)>>))

\* IEEE product of two value records (for pq = sq * rq)
Product(a, b) ==
    CASE a.k = "none" \/ b.k = "none"   -> Tok("absent")     \* None * float raises: key absent
      [] a.k = "absent" \/ b.k = "absent" -> Tok("absent")
      [] a.k = "nan" \/ b.k = "nan"     -> Tok("nan")
      [] a.k = "inf" /\ b.k = "rat"     -> IF b.v[1] = 0 THEN Tok("nan") ELSE IF b.v[1] > 0 THEN Tok("inf") ELSE Tok("ninf")
      [] a.k = "rat" /\ b.k = "inf"     -> IF a.v[1] = 0 THEN Tok("nan") ELSE IF a.v[1] > 0 THEN Tok("inf") ELSE Tok("ninf")
      [] a.k = "rat" /\ b.k = "rat"     -> RatV(Mul(a.v, b.v))
      [] OTHER                          -> Tok("skip")

\* global binary metric m on the two foregrounds, under handler h
GlobalOK(m, shape, h, fgP, fgR, x) ==
    LET sc == GlobalScenario(fgP = {}, fgR = {}) IN
    IF sc # "NOT_EDGE" THEN SameValue(x, Prescribed(h, m, sc))
    ELSE ValueMatches(m, x, Score(m, shape, fgR, fgP))

(***************************************************************************)
(* Judgement of a whole reported result against one definitional outcome   *)
(* (nP, nR, surviving pairs).  Split into named clauses.                   *)
(***************************************************************************)
CountsOK(res, nP, nR)        == res.npred = nP /\ res.nref = nR
TpOK(res, surv)              == res.tp = Cardinality(surv)
FpFnOK(res, nP, nR, surv)    == res.fp = nP - Cardinality(surv) /\ res.fn = nR - Cardinality(surv)
ListsOK(res, im, shape, surv) ==
    LET ps == SeqOfSet(surv) IN
    \A m \in im : ListMatches(m, res.lists[m], ScoresOf(m, shape, ps))
RqOK(res, nP, nR, surv)      == res.rq = RQ(Cardinality(surv), nP, nR)

\* sq_m: with tp > 0 the mean of the expected values; with tp = 0 what the handler prescribes
SqOK(res, im, shape, h, nP, nR, surv) ==
    LET tp == Cardinality(surv)  ps == SeqOfSet(surv) IN
    \A m \in im :
        IF tp = 0 THEN SameValue(res.sq[m], Prescribed(h, m, Scenario(nP, nR)))
        ELSE IF res.sq[m].k = "skip" THEN TRUE
        ELSE IF m = "ASSD"
             THEN LET ss == ScoresOf(m, shape, ps)
                      lo == SumInts([i \in 1..tp |-> ss[i].lo[1]])      \* all over 1000
                      hi == SumInts([i \in 1..tp |-> ss[i].hi[1]])
                  IN IsMilliV(res.sq[m]) /\ MilliIn(res.sq[m].v[1], [lo |-> <<lo, 1000 * tp>>, hi |-> <<hi, 1000 * tp>>])
             ELSE IsRatV(res.sq[m]) /\ Norm(res.sq[m].v) = Mean([i \in 1..tp |-> ScoresOf(m, shape, ps)[i].lo])

\* sq_m_std: reported as the *variance* (std squared, exact rational) for exact metrics
StdOK(res, im, shape, h, surv) ==
    LET tp == Cardinality(surv)  ps == SeqOfSet(surv) IN
    \A m \in im :
        IF tp = 0 THEN SameValue(res.std[m], EmptyStd(h))
        ELSE IF res.std[m].k = "skip" \/ m = "ASSD" THEN TRUE
        ELSE IsRatV(res.std[m]) /\ Norm(res.std[m].v) = Var([i \in 1..tp |-> ScoresOf(m, shape, ps)[i].lo])

GlobalsOK(res, gm, shape, h, fgP, fgR) == \A m \in gm : GlobalOK(m, shape, h, fgP, fgR, res.glob[m])

(***************************************************************************)
(* Bookkeeping (C02): internal consistency of a reported result, whatever  *)
(* produced it.                                                            *)
(***************************************************************************)
BookCounts(res) == res.tp + res.fp = res.npred /\ res.tp + res.fn = res.nref /\ res.tp >= 0 /\ res.fp >= 0 /\ res.fn >= 0
BookLists(res, im) == \A m \in im : Len(res.lists[m]) = res.tp
BookRq(res) == res.rq = RQ(res.tp, res.npred, res.nref)
BookSq(res, im) ==
    \A m \in im \ {"ASSD"} :
        (res.tp > 0 /\ res.sq[m].k # "skip" /\ \A i \in 1..res.tp : IsRatV(res.lists[m][i])) =>
            /\ IsRatV(res.sq[m])
            /\ Norm(res.sq[m].v) = Mean([i \in 1..res.tp |-> Norm(res.lists[m][i].v)])
BookStd(res, im) ==
    \A m \in im \ {"ASSD"} :
        (res.tp > 0 /\ res.std[m].k # "skip" /\ \A i \in 1..res.tp : IsRatV(res.lists[m][i])) =>
            /\ IsRatV(res.std[m])
            /\ Norm(res.std[m].v) = Var([i \in 1..res.tp |-> Norm(res.lists[m][i].v)])
\* ASSD aggregates from the reported milli values: mean within 2 units
BookSqAssd(res, im) ==
    ("ASSD" \in im /\ res.tp > 0 /\ res.sq["ASSD"].k # "skip") =>
        LET xs == res.lists["ASSD"]
            s  == SumInts([i \in 1..res.tp |-> xs[i].v[1]])
        IN /\ IsMilliV(res.sq["ASSD"])
           /\ res.sq["ASSD"].v[1] * res.tp <= s + res.tp
           /\ s <= (res.sq["ASSD"].v[1] + 1) * res.tp + res.tp
\* every instance that is counted and listed as a true positive meets the decision threshold
\* (an instance that fails it is a false positive and a false negative, never a true positive)
BookDecision(res, dm, dthr) ==
    dm # "NONE" =>
        \A i \in 1..Len(res.lists[dm]) :
            LET x == res.lists[dm][i] IN
            IF x.k = "rat" THEN (IF Decreasing(dm) THEN Leq(x.v, dthr) ELSE Leq(dthr, x.v))
            ELSE IF x.k = "milli" THEN (x.v[1] - 1) * dthr[2] <= 1000 * dthr[1]     \* decreasing (ASSD), one unit of slack
            ELSE FALSE
PqMetrics == {"IOU", "DSC", "clDSC"}
BookPq(res, im) ==
    \A m \in im \cap PqMetrics :
        (res.sq[m].k # "skip" /\ res.pq[m].k # "skip") => res.pq[m] = Product(res.sq[m], res.rq)
BookRanges(res, im) ==
    res.tp > 0 =>
        /\ \A m \in im \cap PqMetrics :
              /\ \A i \in 1..Len(res.lists[m]) : IsRatV(res.lists[m][i]) =>
                        Leq(Zero, res.lists[m][i].v) /\ Leq(res.lists[m][i].v, One)
              /\ IsRatV(res.pq[m]) => Leq(Zero, res.pq[m].v) /\ Leq(res.pq[m].v, One)
        /\ IsRatV(res.rq) /\ Leq(Zero, res.rq.v) /\ Leq(res.rq.v, One)
        /\ ({"IOU", "DSC"} \subseteq im /\ IsRatV(res.sq["IOU"]) /\ IsRatV(res.sq["DSC"]))
              => Leq(res.sq["IOU"].v, res.sq["DSC"].v)
=============================================================================
