---- MODULE MC_Objects ----
EXTENDS Objects
====
