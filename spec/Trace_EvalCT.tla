----------------------------- MODULE Trace_EvalCT -----------------------------
(***************************************************************************)
(* Large-scale trace validation of evaluate() on the *contingency table*   *)
(* of a label-map pair (C01, C02, C03 beyond the voxel-level universes:    *)
(* hundreds of instances, instances of more than 2^16 voxels, label values *)
(* and counts that cross dtype boundaries).  The harness projects the two  *)
(* arrays to                                                               *)
(*   sr[r], sp[p]   voxel counts of the reference / prediction instances   *)
(*                  (instances numbered 1..n by rank of their raw label)   *)
(*   inter          <<[r, p, n]>> voxel count of every overlapping pair    *)
(*   same           <<[r, p]>> pairs carrying the same raw label (matched  *)
(*                  input)                                                 *)
(* and TLC runs the same matching operators as everywhere else             *)
(* (NaiveMatchSc on the score map; a count-based merge loop), then the     *)
(* count-based metric formulas.  Overlap metrics only (IoU, Dice, RVD):    *)
(* ASSD needs the geometry and stays with the voxel-level traces.          *)
(***************************************************************************)
EXTENDS PipelineOps, Json, IOUtils, TLC

T == ndJsonDeserialize(IOEnv.TRACE_FILE)
VARIABLES tid, l, E, Inter, ScCT
R == T[tid]
C == R.cfg
Im == {C.im[i] : i \in 1..Len(C.im)}

NR == Len(R.sr)
NP == Len(R.sp)
\* Inter (overlap counts) and ScCT (candidate scores) are computed once per trace by the first step and
\* kept as state, the outcomes E by the second step
InterDef == [c \in {<<R.inter[i].r, R.inter[i].p>> : i \in 1..Len(R.inter)} |->
                (CHOOSE x \in {R.inter[j] : j \in 1..Len(R.inter)} : x.r = c[1] /\ x.p = c[2]).n]
Ov(r, p) == IF <<r, p>> \in DOMAIN Inter THEN Inter[<<r, p>>] ELSE 0

\* a matched instance: reference r with the set P of predictions merged onto it
Inst(r, P) == [sr |-> R.sr[r], sp |-> FoldSet(LAMBDA p, a : a + R.sp[p], 0, P), si |-> FoldSet(LAMBDA p, a : a + Ov(r, p), 0, P), r |-> r]
ScoreCT(m, x) == CASE m = "IOU" -> Norm(<<x.si, x.sr + x.sp - x.si>>)
                   [] m = "DSC" -> Norm(<<2 * x.si, x.sr + x.sp>>)
                   [] m = "RVD" -> Norm(<<x.sp - x.sr, x.sr>>)
ScDef(inter) == [c \in DOMAIN inter |-> Exact(Norm(IF C.mm = "IOU" THEN <<inter[c], R.sr[c[1]] + R.sp[c[2]] - inter[c]>>
                                                   ELSE <<2 * inter[c], R.sr[c[1]] + R.sp[c[2]]>>))]

\* count-based merge loop (same structure as MergeOutcomes of PipelineOps)
MergeStepCT(lm, c) ==
    LET r == c[1]  p == c[2] IN
    IF p \in PredsIn(lm) THEN lm
    ELSE IF r \in RefsOf(lm)
         THEN LET old == Exact(ScoreCT(C.mm, Inst(r, PredsOf(lm, r))))
                  new == Exact(ScoreCT(C.mm, Inst(r, PredsOf(lm, r) \cup {p})))
              IN IF DefBetter(C.mm, new, old) THEN lm \cup {c} ELSE lm
         ELSE IF DefBeats(C.mm, ScCT[c], C.thr) THEN lm \cup {c} ELSE lm
MergeSuccCT(f) ==
    LET C1 == {c \in f.C : c[2] \notin PredsIn(f.lm)} IN
    IF C1 = {} THEN {[lm |-> f.lm, C |-> {}]}
    ELSE LET B == Best(C.mm, ScCT, C1)
             free == {c \in B : \A d \in C1 : d = c \/ (d[1] # c[1] /\ d[2] # c[2])}
             pick == IF free # {} THEN {CHOOSE c \in free : TRUE} ELSE B
         IN {[lm |-> MergeStepCT(f.lm, c), C |-> C1 \ {c}] : c \in pick}
RECURSIVE MergeBfsCT(_)
MergeBfsCT(F) == IF \A f \in F : f.C = {} THEN {f.lm : f \in F} ELSE MergeBfsCT(UNION {MergeSuccCT(f) : f \in F})
MergeCT(lm, Cs) == MergeBfsCT({[lm |-> lm, C |-> Cs]})

LabelMaps ==
    CASE C.input = "MAT"    -> {{<<R.same[i].r, R.same[i].p>> : i \in 1..Len(R.same)}}
      [] NR = 0 \/ NP = 0   -> {{}}
      [] C.matcher = "naive" -> NaiveMatchSc(FALSE, C.mm, C.thr, ScCT)
      [] C.matcher = "m2o"   -> NaiveMatchSc(TRUE, C.mm, C.thr, ScCT)
      [] C.matcher = "merge" -> MergeCT({}, DOMAIN ScCT)

Beats(x) == C.dm = "NONE" \/ DefBeats(C.dm, Exact(ScoreCT(C.dm, x)), C.dthr)
Outcome(lm) ==
    LET insts == {Inst(r, PredsOf(lm, r)) : r \in RefsOf(lm)} IN
    [nP |-> NP - Cardinality(PredsIn(lm)) + Cardinality(RefsOf(lm)), nR |-> NR, surv |-> {x \in insts : Beats(x)}]

Init == tid \in 1..Len(T) /\ l = 0 /\ E = {} /\ Inter = <<>> /\ ScCT = <<>>
Step1 == l = 0 /\ l' = 1 /\ UNCHANGED <<tid, E>> /\ Inter' = InterDef /\ ScCT' = ScDef(InterDef)
Step2 == l = 1 /\ l' = 2 /\ UNCHANGED <<tid, Inter, ScCT>> /\ E' = IF R.out = "ok" THEN {Outcome(lm) : lm \in LabelMaps} ELSE {}
Next == Step1 \/ Step2
Spec == Init /\ [][Next]_<<tid, l, E, Inter, ScCT>>

Go == l = 2
Ok == Go /\ R.out = "ok"
Uniq == Ok /\ Cardinality(E) = 1
One1 == CHOOSE e \in E : TRUE
Res == R.res
ListOKCT(e, m) == LET ps == SeqOfSet(e.surv) IN
    /\ Len(Res.lists[m]) = Len(ps)
    /\ \A i \in 1..Len(Res.lists[m]) : IsRatV(Res.lists[m][i])
    /\ SameBag([i \in 1..Len(ps) |-> Norm(Res.lists[m][i].v)], [i \in 1..Len(ps) |-> ScoreCT(m, ps[i])])
AllOK(e) == /\ Res.npred = e.nP /\ Res.nref = e.nR /\ Res.tp = Cardinality(e.surv)
            /\ Res.fp = e.nP - Cardinality(e.surv) /\ Res.fn = e.nR - Cardinality(e.surv)
            /\ \A m \in Im : ListOKCT(e, m)

T_Completes == Go => R.out = "ok"
T_Counts    == Uniq => Res.npred = One1.nP /\ Res.nref = One1.nR
T_Tp        == Uniq => Res.tp = Cardinality(One1.surv)
T_FpFn      == Uniq => Res.fp = One1.nP - Cardinality(One1.surv) /\ Res.fn = One1.nR - Cardinality(One1.surv)
T_Lists     == Uniq => \A m \in Im : ListOKCT(One1, m)
T_Ambiguous == (Ok /\ Cardinality(E) > 1) => \E e \in E : AllOK(e)
T_Rq        == Ok => Res.rq = RQ(Res.tp, Res.npred, Res.nref)
T_BookCounts == Ok => BookCounts(Res)
T_BookLists  == Ok => BookLists(Res, Im)
T_BookDecision == Ok => BookDecision(Res, C.dm, C.dthr)
=============================================================================
