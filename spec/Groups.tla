------------------------------- MODULE Groups -------------------------------
(***************************************************************************)
(* Class groups (label_group.py, segmentation_class.py) - construction     *)
(* rules and label extraction, beyond what C12 needs (DESIGN 3.4).         *)
(*   a label group   = [labels : set of positive integers, single, merge]  *)
(*   MakeGroup       rejects an empty label set, non-positive labels and   *)
(*                   a single-instance group with more than one label      *)
(*   MakeGroups      from a sequence of <<name, group>>: names are         *)
(*                   lower-cased, a later entry with the same lower-cased  *)
(*                   name replaces the earlier one; from a plain sequence  *)
(*                   of groups the names are group_0, group_1, ...         *)
(*   Defined(gs, arr) every non-zero label of arr belongs to some group    *)
(*   Extract(g, arr)  arr restricted to the group's labels, binarised for  *)
(*                   a merge group                                         *)
(***************************************************************************)
EXTENDS Integers, Sequences, FiniteSets

GroupOK(labels, single) == /\ labels # {} /\ \A x \in labels : x > 0 /\ (single => Cardinality(labels) = 1)

\* entries: sequence of [name (already lower-cased by Lower), labels, single, merge]; later wins
Names(entries) == {entries[i].name : i \in 1..Len(entries)}
LastOf(entries, n) == LET idx == {i \in 1..Len(entries) : entries[i].name = n}
                          k == CHOOSE i \in idx : \A j \in idx : j <= i
                      IN entries[k]
MakeGroups(entries) == [n \in Names(entries) |-> LastOf(entries, n)]

AllLabels(gs) == UNION {gs[n].labels : n \in DOMAIN gs}
Defined(gs, arr) == \A i \in 1..Len(arr) : arr[i] = 0 \/ arr[i] \in AllLabels(gs)
Extract(g, arr) == [i \in 1..Len(arr) |-> IF arr[i] \in g.labels THEN (IF g.merge THEN 1 ELSE arr[i]) ELSE 0]
=============================================================================
