---------------------------- MODULE Trace_Validate ----------------------------
(***************************************************************************)
(* Beyond the listed properties (DESIGN 3.4): the input contract of        *)
(* Panoptica_Evaluator.evaluate - what Pipeline.tla calls Fail(reason).    *)
(* One record per call:                                                    *)
(*   kind        "SEM" | "UNM" | "MAT"  the evaluator's expected input     *)
(*   sameshape, samedtype   the two arrays agree in shape / dtype          *)
(*   dclass      "uint" | "int" | "float" | "bool"  dtype class of both    *)
(*   hasneg      some value is negative                                    *)
(*   isarray     both arguments are numpy arrays                           *)
(*   out         "ok" | "raise"                                            *)
(* An input is valid iff both are arrays of one shape and one integer      *)
(* dtype - unsigned for instance maps, without negative values for         *)
(* semantic maps; valid input is evaluated, anything else is rejected.     *)
(***************************************************************************)
EXTENDS Integers, Sequences, TLC, Json, IOUtils
T == ndJsonDeserialize(IOEnv.TRACE_FILE)
VARIABLES tid, l
Init == tid \in 1..Len(T) /\ l = 0
Next == l = 0 /\ l' = 1 /\ UNCHANGED tid
Spec == Init /\ [][Next]_<<tid, l>>
R == T[tid]
Valid == /\ R.isarray /\ R.sameshape /\ R.samedtype
         /\ IF R.kind = "SEM" THEN R.dclass \in {"uint", "int"} /\ ~R.hasneg
            ELSE R.dclass = "uint"
T_ValidAccepted   == (l = 1 /\ Valid) => R.out = "ok"
T_InvalidRejected == (l = 1 /\ ~Valid) => R.out = "raise"
=============================================================================
