----------------------------- MODULE EdgeCases -----------------------------
(***************************************************************************)
(* Zero-true-positive scenarios and the edge-case handler.                 *)
(* A handler maps  metric -> scenario -> EdgeResult  plus one EdgeResult   *)
(* for the standard deviation of an empty list.                            *)
(*                                                                         *)
(* Reported values are "value records" [k, v]:                             *)
(*   k = "rat"   v = <<n, d>>   a finite exact value                       *)
(*   k = "milli" v = <<x, 1000>>  x = floor(1000 * value), ASSD-valued     *)
(*   k \in {"inf","ninf","nan","none","absent","irr","skip"}  v = <<0,1>>   *)
(***************************************************************************)
EXTENDS Integers, Sequences

EdgeResults == {"INF", "NAN", "ZERO", "ONE", "NONE"}
Scenarios   == {"NO_INSTANCES", "EMPTY_PRED", "EMPTY_REF", "NORMAL"}

Tok(k)   == [k |-> k, v |-> <<0, 1>>]
RatV(q)  == [k |-> "rat", v |-> q]

EdgeValue(e) ==
    CASE e = "INF"  -> Tok("inf")
      [] e = "NAN"  -> Tok("nan")
      [] e = "ZERO" -> RatV(<<0, 1>>)
      [] e = "ONE"  -> RatV(<<1, 1>>)
      [] e = "NONE" -> Tok("none")

\* representation-agnostic equality of two value records (a finite value may be reported in
\* milli units or as a rational)
FiniteV(x) == x.k \in {"rat", "milli"}
\* (reduced fractions are compared component-wise: no products, so no 32-bit overflow)
RECURSIVE GcdE(_, _)
GcdE(a, b) == IF b = 0 THEN (IF a < 0 THEN -a ELSE a) ELSE GcdE(b, a % b)
Reduced(q) == LET g == GcdE(q[1], q[2]) IN IF g = 0 THEN <<0, 1>> ELSE <<q[1] \div g, q[2] \div g>>
SameValue(x, y) == IF FiniteV(x) /\ FiniteV(y) THEN Reduced(x.v) = Reduced(y.v) ELSE x.k = y.k

\* which scenario a zero-tp result is in, from the instance counts
Scenario(nPred, nRef) ==
    CASE nPred = 0 /\ nRef = 0 -> "NO_INSTANCES"
      [] nPred > 0 /\ nRef = 0 -> "EMPTY_REF"
      [] nPred = 0 /\ nRef > 0 -> "EMPTY_PRED"
      [] OTHER                 -> "NORMAL"

\* scenario of a global binary metric, by emptiness of the two foregrounds
GlobalScenario(predEmpty, refEmpty) ==
    CASE predEmpty /\ refEmpty  -> "NO_INSTANCES"
      [] predEmpty              -> "EMPTY_PRED"
      [] refEmpty               -> "EMPTY_REF"
      [] OTHER                  -> "NOT_EDGE"

\* the value a handler h prescribes for metric m in scenario s
Prescribed(h, m, s) == EdgeValue(h.zt[m][s])
EmptyStd(h)         == EdgeValue(h.estd)
=============================================================================
