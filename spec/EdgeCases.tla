----------------------------- MODULE EdgeCases -----------------------------
(***************************************************************************)
(* Zero-true-positive scenarios and the edge-case handler.                 *)
(* A handler maps  metric -> scenario -> EdgeResult  plus one EdgeResult   *)
(* for the standard deviation of an empty list.                            *)
(*                                                                         *)
(* Reported values are "value records" [k, v]:                             *)
(*   k = "rat"   v = <<n, d>>   a finite exact value                       *)
(*   k = "milli" v = <<x, 1000>>  x = floor(1000 * value), ASSD-valued     *)
(*   k \in {"inf","ninf","nan","none","absent","irr","skip"}  v = <<0,1>>   *)
(***************************************************************************)
EXTENDS Integers, Sequences

EdgeResults == {"INF", "NAN", "ZERO", "ONE", "NONE"}
Scenarios   == {"NO_INSTANCES", "EMPTY_PRED", "EMPTY_REF", "NORMAL"}

Tok(k)   == [k |-> k, v |-> <<0, 1>>]
RatV(q)  == [k |-> "rat", v |-> q]

EdgeValue(e) ==
    CASE e = "INF"  -> Tok("inf")
      [] e = "NAN"  -> Tok("nan")
      [] e = "ZERO" -> RatV(<<0, 1>>)
      [] e = "ONE"  -> RatV(<<1, 1>>)
      [] e = "NONE" -> Tok("none")

\* representation-agnostic equality of two value records (a finite value may be reported in
\* milli units or as a rational)
FiniteV(x) == x.k \in {"rat", "milli"}
SameValue(x, y) == IF FiniteV(x) /\ FiniteV(y) THEN x.v[1] * y.v[2] = y.v[1] * x.v[2] ELSE x.k = y.k

\* which scenario a zero-tp result is in, from the instance counts
Scenario(nPred, nRef) ==
    CASE nPred = 0 /\ nRef = 0 -> "NO_INSTANCES"
      [] nPred > 0 /\ nRef = 0 -> "EMPTY_REF"
      [] nPred = 0 /\ nRef > 0 -> "EMPTY_PRED"
      [] OTHER                 -> "NORMAL"

\* scenario of a global binary metric, by emptiness of the two foregrounds
GlobalScenario(predEmpty, refEmpty) ==
    CASE predEmpty /\ refEmpty  -> "NO_INSTANCES"
      [] predEmpty              -> "EMPTY_PRED"
      [] refEmpty               -> "EMPTY_REF"
      [] OTHER                  -> "NOT_EDGE"

\* the value a handler h prescribes for metric m in scenario s
Prescribed(h, m, s) == EdgeValue(h.zt[m][s])
EmptyStd(h)         == EdgeValue(h.estd)
=============================================================================
