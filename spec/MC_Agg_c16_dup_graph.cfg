CONSTANT Aggs <- OneAgg
CONSTANT Calls <- CallsDup
CONSTANT InitOut <- InitAbsent
CONSTANT MaxCrashes = 0
CONSTANT MaxSessions = 1
CONSTANT NormalExit = TRUE
CONSTANT MaxWorkerKills = 0
CONSTANT HeaderOnEmpty = TRUE
CONSTANT OwnBuffer = TRUE
CONSTANT HeaderNoClaim = TRUE
CONSTANT SplitWrites = FALSE
CONSTANT StatWrongLock = FALSE
SPECIFICATION Spec
INVARIANT NoDupRows
INVARIANT HeaderFirstOnce
INVARIANT RowsAreSubjects
INVARIANT SnapOnlyComplete
INVARIANT LocksConsistent
INVARIANT ExactlyOnePerSubject
INVARIANT NoCallFailed
INVARIANT SiblingsIndependent
PROPERTY RowsAppendOnly
