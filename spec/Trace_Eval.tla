------------------------------ MODULE Trace_Eval ------------------------------
(***************************************************************************)
(* Trace validation of Panoptica_Evaluator.evaluate, end to end (C01, C02, *)
(* C08, C13; also the single runs of the relational properties).           *)
(* One ndjson line per recorded call:                                      *)
(*   shape, pred, ref   the input label maps (jointly rank-renamed)        *)
(*   cfg                input type, backend, matcher, mm/thr, dm/dthr,     *)
(*                      im (instance metrics), gm (global metrics), h      *)
(*   out                "ok" | "raise"                                     *)
(*   res                the reported result, projected (PipelineOps.tla)   *)
(* The step derives, once, the set E of definitional outcomes              *)
(* [nP, nR, surv] over all tie orders, from the input alone, with the      *)
(* operators of PipelineOps; every clause is a named invariant.            *)
(***************************************************************************)
EXTENDS PipelineOps, Json, IOUtils, TLC

T == ndJsonDeserialize(IOEnv.TRACE_FILE)

VARIABLES tid, l, E
vars == <<tid, l, E>>

R   == T[tid]
C   == R.cfg
Im  == {C.im[i] : i \in 1..Len(C.im)}
Gm  == {C.gm[i] : i \in 1..Len(C.gm)}

\* the unmatched instance pair the matcher sees
UnmPr == IF C.input = "SEM" THEN Approximate(C.backend, R.shape, R.pred) ELSE R.pred
UnmRf == IF C.input = "SEM" THEN Approximate(C.backend, R.shape, R.ref)  ELSE R.ref

\* matched situations [nP, nR, pairs] the documented procedure allows
Situations ==
    IF C.input = "MAT"
    THEN {[nP |-> Cardinality(Labels(R.pred)), nR |-> Cardinality(Labels(R.ref)),
           pairs |-> PairsOfMatched(R.pred, R.ref)]}
    ELSE LET pr == UnmPr  rf == UnmRf
             nP == Cardinality(Labels(pr))  nR == Cardinality(Labels(rf))
         IN IF nP = 0 \/ nR = 0 THEN {[nP |-> nP, nR |-> nR, pairs |-> {}]}
            ELSE {[nP |-> NPredAfter(pr, lm), nR |-> nR, pairs |-> PairsOfLm(pr, rf, lm)]
                    : lm \in AllowedLabelMaps(C.matcher, C.mm, C.thr, R.shape, pr, rf)}

Expected ==
    UNION {{[nP |-> s.nP, nR |-> s.nR, surv |-> sv] : sv \in Survivors(C.dm, C.dthr, R.shape, s.pairs)}
             : s \in Situations}

Init == tid \in 1..Len(T) /\ l = 0 /\ E = {}
Next == /\ l = 0 /\ l' = 1 /\ UNCHANGED tid
        /\ E' = IF R.out = "ok" THEN Expected ELSE {}
Spec == Init /\ [][Next]_vars

Go    == l = 1
Ok    == Go /\ R.out = "ok"
Unamb == Cardinality(E) = 1
One1  == CHOOSE e \in E : TRUE
Uniq  == Ok /\ Unamb
Res   == R.res

\* ---- C01 / C08: evaluation completes and reports the definitional answer ----
T_Completes == Go => R.out = "ok"
T_Counts    == Uniq => CountsOK(Res, One1.nP, One1.nR)
T_Tp        == Uniq => TpOK(Res, One1.surv)
T_FpFn      == Uniq => FpFnOK(Res, One1.nP, One1.nR, One1.surv)
T_Lists     == Uniq => ListsOK(Res, Im, R.shape, One1.surv)
T_Rq        == Uniq => RqOK(Res, One1.nP, One1.nR, One1.surv)
T_Sq        == (Uniq /\ One1.surv # {}) => SqOK(Res, Im, R.shape, C.h, One1.nP, One1.nR, One1.surv)
T_Std       == (Uniq /\ One1.surv # {}) => StdOK(Res, Im, R.shape, C.h, One1.surv)
\* C08: zero true positives -> exactly what the handler prescribes
T_ZeroTpSq  == (Uniq /\ One1.surv = {}) => SqOK(Res, Im, R.shape, C.h, One1.nP, One1.nR, One1.surv)
T_ZeroTpStd == (Uniq /\ One1.surv = {}) => StdOK(Res, Im, R.shape, C.h, One1.surv)
\* with competing equal-score candidates: the report is one of the allowed answers
T_Ambiguous == (Ok /\ ~Unamb) =>
    \E e \in E : /\ CountsOK(Res, e.nP, e.nR) /\ TpOK(Res, e.surv) /\ FpFnOK(Res, e.nP, e.nR, e.surv)
                 /\ ListsOK(Res, Im, R.shape, e.surv) /\ RqOK(Res, e.nP, e.nR, e.surv)
                 /\ SqOK(Res, Im, R.shape, C.h, e.nP, e.nR, e.surv)
                 /\ StdOK(Res, Im, R.shape, C.h, e.surv)

\* ---- C13: global binary metrics depend only on the two foregrounds ----
T_Global    == Ok => GlobalsOK(Res, Gm, R.shape, C.h, Fg(R.pred), Fg(R.ref))

\* ---- C02: bookkeeping of the reported result itself ----
T_BookCounts == Ok => BookCounts(Res)
T_BookLists  == Ok => BookLists(Res, Im)
T_BookRq     == Ok => BookRq(Res)
T_BookSq     == Ok => BookSq(Res, Im) /\ BookSqAssd(Res, Im)
T_BookStd    == Ok => BookStd(Res, Im)
T_BookPq     == Ok => BookPq(Res, Im)
T_BookRanges == Ok => BookRanges(Res, Im)
T_BookDecision == Ok => BookDecision(Res, C.dm, C.dthr)
=============================================================================
