------------------------------ MODULE Trace_Eval ------------------------------
(***************************************************************************)
(* Trace validation of Panoptica_Evaluator.evaluate, end to end (C01, C02, *)
(* C08, C13; also the single runs of the relational properties).           *)
(* One ndjson line per recorded call:                                      *)
(*   shape, pred, ref   the input label maps (jointly rank-renamed)        *)
(*   cfg                input type, backend, matcher, mm/thr, dm/dthr,     *)
(*                      im (instance metrics), gm (global metrics), h      *)
(*   out                "ok" | "raise"                                     *)
(*   res                the reported result, projected (PipelineOps.tla)   *)
(* The step derives, once, the set E of definitional outcomes              *)
(* [nP, nR, surv] over all tie orders, from the input alone, with the      *)
(* operators of PipelineOps; every clause is a named invariant.            *)
(***************************************************************************)
EXTENDS PipelineOps, SequencesExt, Json, IOUtils, TLC

T == ndJsonDeserialize(IOEnv.TRACE_FILE)

VARIABLES tid, l, E
vars == <<tid, l, E>>

R   == T[tid]
C   == R.cfg
Im  == {C.im[i] : i \in 1..Len(C.im)}
Gm  == {C.gm[i] : i \in 1..Len(C.gm)}

(***************************************************************************)
(* Class groups (C12, Groups.tla): a record may name one class group       *)
(* (glabels, gkind in {"plain","merge","single"}) of an evaluator whose    *)
(* groups cover the labels gall.  The group's result is, by definition,    *)
(* the ungrouped result of the two arrays restricted to the group's labels *)
(* (binarised first for a merge group; one already-matched instance for a  *)
(* single-instance group).                                                 *)
(***************************************************************************)
Grouped == Len(R.glabels) > 0
GL      == {R.glabels[i] : i \in 1..Len(R.glabels)}
GAll    == {R.gall[i] : i \in 1..Len(R.gall)}
Restr(arr) == IF ~Grouped THEN arr
              ELSE IF R.gkind = "merge" THEN Binarize(RestrictTo(arr, GL)) ELSE RestrictTo(arr, GL)
InPred  == Restr(R.pred)
InRef   == Restr(R.ref)
Single  == Grouped /\ R.gkind = "single"
Kind    == IF Single THEN "MAT" ELSE C.input
Dthr    == IF Single /\ C.input # "MAT" THEN <<0, 1>> ELSE C.dthr
Undefined == Grouped /\ ~((Labels(R.pred) \cup Labels(R.ref)) \subseteq GAll)

Expected == ExpectedOf(Kind, C.backend, C.matcher, C.mm, C.thr, C.dm, Dthr, R.shape, InPred, InRef)

Init == tid \in 1..Len(T) /\ l = 0 /\ E = {}
Next == /\ l = 0 /\ l' = 1 /\ UNCHANGED tid
        /\ E' = IF R.out = "ok" THEN Expected ELSE {}
Spec == Init /\ [][Next]_vars

Go    == l = 1
Ok    == Go /\ R.out = "ok"
Unamb == Cardinality(E) = 1
One1  == CHOOSE e \in E : TRUE
Uniq  == Ok /\ Unamb
Res   == R.res

\* ---- C01 / C08: evaluation completes and reports the definitional answer ----
T_Completes == (Go /\ ~Undefined) => R.out = "ok"
\* C12: input with a non-zero label that belongs to no group is rejected
T_UndefinedRejected == (Go /\ Undefined) => R.out = "raise"
T_Counts    == Uniq => CountsOK(Res, One1.nP, One1.nR)
T_Tp        == Uniq => TpOK(Res, One1.surv)
T_FpFn      == Uniq => FpFnOK(Res, One1.nP, One1.nR, One1.surv)
T_Lists     == Uniq => ListsOK(Res, Im, R.shape, One1.surv)
T_Rq        == Uniq => RqOK(Res, One1.nP, One1.nR, One1.surv)
T_Sq        == (Uniq /\ One1.surv # {}) => SqOK(Res, Im, R.shape, C.h, One1.nP, One1.nR, One1.surv)
T_Std       == (Uniq /\ One1.surv # {}) => StdOK(Res, Im, R.shape, C.h, One1.surv)
\* C08: zero true positives -> exactly what the handler prescribes
T_ZeroTpSq  == (Uniq /\ One1.surv = {}) => SqOK(Res, Im, R.shape, C.h, One1.nP, One1.nR, One1.surv)
T_ZeroTpStd == (Uniq /\ One1.surv = {}) => StdOK(Res, Im, R.shape, C.h, One1.surv)
\* with competing equal-score candidates: the report is one of the allowed answers
T_Ambiguous == (Ok /\ ~Unamb) =>
    \E e \in E : /\ CountsOK(Res, e.nP, e.nR) /\ TpOK(Res, e.surv) /\ FpFnOK(Res, e.nP, e.nR, e.surv)
                 /\ ListsOK(Res, Im, R.shape, e.surv) /\ RqOK(Res, e.nP, e.nR, e.surv)
                 /\ SqOK(Res, Im, R.shape, C.h, e.nP, e.nR, e.surv)
                 /\ StdOK(Res, Im, R.shape, C.h, e.surv)

\* ---- C13: global binary metrics depend only on the two foregrounds ----
T_Global    == Ok => GlobalsOK(Res, Gm, R.shape, C.h, Fg(InPred), Fg(InRef))

\* ---- C02: bookkeeping of the reported result itself ----
T_BookCounts == Ok => BookCounts(Res)
T_BookLists  == Ok => BookLists(Res, Im)
T_BookRq     == Ok => BookRq(Res)
T_BookSq     == Ok => BookSq(Res, Im) /\ BookSqAssd(Res, Im)
T_BookStd    == Ok => BookStd(Res, Im)
T_BookPq     == Ok => BookPq(Res, Im)
T_BookRanges == Ok => BookRanges(Res, Im)
T_BookDecision == Ok => BookDecision(Res, C.dm, Dthr)

(***************************************************************************)
(* Relational clauses (C09, C10, C11, C12): a record may carry a second    *)
(* reported result resB of a *related* evaluation (rel):                   *)
(*   "same"  the input renamed / re-typed / padded / flipped / permuted /  *)
(*           the ungrouped evaluation of the restricted arrays: everything *)
(*           reported must be unchanged                                    *)
(*   "swap"  prediction and reference exchanged: tp and the IoU/Dice/ASSD  *)
(*           values equal, fp/fn exchanged, RVD r -> -r/(1+r)              *)
(* Stated when the matching is uniquely determined (Unamb); otherwise each *)
(* run only has to be one of the allowed answers (its own Trace_Eval run). *)
(***************************************************************************)
Rel   == R.rel
ResB  == R.resb
HasB  == Uniq /\ Rel # "none" /\ R.outb = "ok"
MilliSorted(xs) == SortSeq([i \in 1..Len(xs) |-> xs[i].v[1]], LAMBDA a, b : a < b)
SameList(m, xs, ys) ==
    /\ Len(xs) = Len(ys)
    /\ IF m = "ASSD"
       THEN LET a == MilliSorted(xs)  b == MilliSorted(ys) IN \A i \in 1..Len(a) : Abs(a[i] - b[i]) <= 1
       ELSE SameBag([i \in 1..Len(xs) |-> IF xs[i].k = "rat" THEN Norm(xs[i].v) ELSE <<0, 0>>],
                    [i \in 1..Len(ys) |-> IF ys[i].k = "rat" THEN Norm(ys[i].v) ELSE <<0, 0>>])
MirrorRvd(x) == IF x.k = "rat" /\ x.v[1] + x.v[2] # 0 THEN RatV(Norm(Div(Neg(x.v), Add(One, x.v)))) ELSE x
SameV(m, x, y) == IF x.k = "skip" \/ y.k = "skip" THEN TRUE
                  ELSE IF m = "ASSD" /\ x.k = "milli" /\ y.k = "milli" THEN Abs(x.v[1] - y.v[1]) <= 1
                  ELSE SameValue(x, y)
T_RelCompletes == (Uniq /\ Rel # "none") => R.outb = "ok"
T_RelCounts == HasB =>
    IF Rel = "swap"
    THEN Res.tp = ResB.tp /\ Res.fp = ResB.fn /\ Res.fn = ResB.fp /\ Res.nref = ResB.npred /\ Res.npred = ResB.nref
    ELSE Res.tp = ResB.tp /\ Res.fp = ResB.fp /\ Res.fn = ResB.fn /\ Res.nref = ResB.nref /\ Res.npred = ResB.npred
T_RelLists == HasB =>
    \A m \in Im :
        IF Rel = "swap" /\ m = "RVD"
        THEN SameList(m, [i \in 1..Len(Res.lists[m]) |-> MirrorRvd(Res.lists[m][i])], ResB.lists[m])
        ELSE SameList(m, Res.lists[m], ResB.lists[m])
T_RelSq == HasB =>
    /\ SameValue(Res.rq, ResB.rq)
    /\ \A m \in Im \ (IF Rel = "swap" THEN {"RVD"} ELSE {}) :
          /\ (Res.tp > 0 \/ Rel # "swap") => SameV(m, Res.sq[m], ResB.sq[m])
          /\ (Res.tp > 0 \/ Rel # "swap") => SameV("x", Res.std[m], ResB.std[m])
    /\ \A m \in Im \cap PqMetrics : (Res.tp > 0 \/ Rel # "swap") => SameV(m, Res.pq[m], ResB.pq[m])
T_RelGlobal == HasB =>
    \A m \in Gm :
        IF Rel = "swap"
        THEN (Fg(InPred) # {} /\ Fg(InRef) # {}) =>
                SameV(m, IF m = "RVD" THEN MirrorRvd(Res.glob[m]) ELSE Res.glob[m], ResB.glob[m])
        ELSE SameV(m, Res.glob[m], ResB.glob[m])
=============================================================================
