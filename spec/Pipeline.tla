------------------------------ MODULE Pipeline ------------------------------
(***************************************************************************)
(* panoptica's evaluation of ONE class group as a state machine, shaped    *)
(* like the implementation (panoptic_evaluate): one action per phase and   *)
(* one action per iteration of the matcher loop.                           *)
(*                                                                         *)
(*   submitted --Approximate--> unmatched --ZeroCheck1--> (result | scan)  *)
(*   scan --Scan--> matching --ProcessCandidate*--> loopdone               *)
(*   loopdone --Relabel--> matched --ZeroCheck2--> (result | evaluate)     *)
(*   evaluate --EvaluateDecide--> evaluated --BuildResult--> result        *)
(*                                                                         *)
(* The matcher loop picks, nondeterministically, any candidate that no     *)
(* remaining candidate definitely beats: the specification is              *)
(* nondeterministic exactly on ties, where the documentation is silent.    *)
(*                                                                         *)
(* The Legacy* constants reproduce behaviours the shipped code had before  *)
(* its fix: commits; they are FALSE in every configuration that is used to *)
(* judge the code and TRUE only in self-tests showing that the invariants  *)
(* are not vacuous (TLC must then produce a counterexample).               *)
(***************************************************************************)
EXTENDS PipelineOps, TLC

CONSTANTS
    Shape,                 \* grid shape, e.g. <<2, 3>>
    MaxLabel,              \* labels 0..MaxLabel on both sides
    Cfgs,                  \* set of configuration records
    LegacyTpBeforeDecision,
    LegacyMergeIgnoresDirection,
    LegacyGlobalFlags

VARIABLES
    pc,        \* control state
    cfg,       \* configuration of this evaluation
    inp,       \* [pred, ref] the caller's label maps (never changed)
    unm,       \* [pr, rf] unmatched instance pair
    sc,        \* candidate score map
    rem,       \* candidates not yet processed by the matcher loop
    lm,        \* the matcher's label map: set of <<ref, pred>>
    mat,       \* [mp, mr] matched instance pair
    ev,        \* [nP, nR, pairs, surv] evaluated instances
    res        \* the result record

vars == <<pc, cfg, inp, unm, sc, rem, lm, mat, ev, res>>

N == NVox(Shape)
LabelMaps == [1..N -> 0..MaxLabel]
None == [none |-> TRUE]

Init ==
    /\ pc = "submitted"
    /\ cfg \in Cfgs
    /\ inp \in [pred : LabelMaps, ref : LabelMaps]
    /\ unm = None /\ sc = <<>> /\ rem = {} /\ lm = {} /\ mat = None /\ ev = None /\ res = None

(***************************************************************************)
(* Result construction shared by the early exits and the normal path.      *)
(***************************************************************************)
GlobalValue(m, fgP, fgR) ==
    LET scn == GlobalScenario(fgP = {}, fgR = {})
        \* the shipped code passed the emptiness flags in place of instance counts
        legacy == CASE fgP = {} /\ fgR = {} -> "NORMAL"
                    [] fgP = {}             -> "EMPTY_REF"
                    [] fgR = {}             -> "EMPTY_PRED"
                    [] OTHER                -> "NOT_EDGE"
        s == IF LegacyGlobalFlags THEN legacy ELSE scn
    IN IF s # "NOT_EDGE" THEN [edge |-> TRUE, v |-> Prescribed(cfg.h, m, s)]
       ELSE [edge |-> FALSE, v |-> Score(m, Shape, fgR, fgP)]

MakeResult(nP, nR, tp, surv) ==
    LET ps == SeqOfSet(surv)
        lists == [m \in cfg.im |-> ScoresOf(m, Shape, ps)]
    IN [nP |-> nP, nR |-> nR, tp |-> tp, fp |-> nP - tp, fn |-> nR - tp,
        lists |-> lists,
        rq  |-> RQ(tp, nP, nR),
        sq  |-> [m \in cfg.im |->
                    IF tp = 0 THEN Prescribed(cfg.h, m, Scenario(nP, nR))
                    ELSE IF m = "ASSD" \/ Len(lists[m]) = 0 THEN Tok("skip")
                    ELSE RatV(Mean([i \in 1..Len(lists[m]) |-> lists[m][i].lo]))],
        std |-> [m \in cfg.im |->
                    IF Len(lists[m]) = 0 THEN EmptyStd(cfg.h)
                    ELSE IF m = "ASSD" THEN Tok("skip")
                    ELSE RatV(Var([i \in 1..Len(lists[m]) |-> lists[m][i].lo]))],
        glob |-> [m \in cfg.gm |-> GlobalValue(m, Fg(inp.pred), Fg(inp.ref))]]

(***************************************************************************)
(* Actions.                                                                *)
(***************************************************************************)
DoApproximate ==
    /\ pc = "submitted"
    /\ unm' = IF cfg.input = "SEM"
              THEN [pr |-> Approximate(cfg.backend, Shape, inp.pred), rf |-> Approximate(cfg.backend, Shape, inp.ref)]
              ELSE [pr |-> inp.pred, rf |-> inp.ref]
    /\ pc' = IF cfg.input = "MAT" THEN "matched" ELSE "unmatched"
    /\ mat' = IF cfg.input = "MAT" THEN [mp |-> inp.pred, mr |-> inp.ref] ELSE mat
    /\ UNCHANGED <<cfg, inp, sc, rem, lm, ev, res>>

ZeroCheck1 ==
    /\ pc = "unmatched"
    /\ LET nP == Cardinality(Labels(unm.pr))  nR == Cardinality(Labels(unm.rf)) IN
       IF nP = 0 \/ nR = 0
       THEN /\ res' = MakeResult(nP, nR, 0, {}) /\ pc' = "result"
       ELSE /\ res' = res /\ pc' = "scan"
    /\ UNCHANGED <<cfg, inp, unm, sc, rem, lm, mat, ev>>

Scan ==
    /\ pc = "scan"
    /\ sc' = ScoreMap(cfg.mm, Shape, unm.pr, unm.rf)
    /\ rem' = DOMAIN sc'
    /\ lm' = {}
    /\ pc' = "matching"
    /\ UNCHANGED <<cfg, inp, unm, mat, ev, res>>

\* one iteration of the matcher loop: the candidate that comes next in a best-first order
ProcessCandidate(c) ==
    /\ pc = "matching"
    /\ c \in Best(cfg.mm, sc, rem)
    /\ rem' = rem \ {c}
    /\ IF cfg.matcher = "merge"
       THEN lm' \in (IF LegacyMergeIgnoresDirection /\ c[1] \in RefsOf(lm) /\ c[2] \notin PredsIn(lm)
                     THEN \* shipped: "new_score > old" whatever the direction of the metric
                          LET cur == PredsOf(lm, c[1])
                              old == MergedScore(cfg.mm, Shape, unm.pr, unm.rf, c[1], cur)
                              new == MergedScore(cfg.mm, Shape, unm.pr, unm.rf, c[1], cur \cup {c[2]})
                          IN IF Less(old.hi, new.lo) THEN {lm \cup {c}} ELSE {lm}
                     ELSE MergeStep(cfg.mm, cfg.thr, Shape, unm.pr, unm.rf, sc, lm, c))
       ELSE lm' \in (IF DefBeats(cfg.mm, sc[c], cfg.thr) THEN {NaiveStep(cfg.matcher = "m2o", lm, c)}
                     ELSE IF DefNotBeats(cfg.mm, sc[c], cfg.thr) THEN {lm}
                     ELSE {lm, NaiveStep(cfg.matcher = "m2o", lm, c)})
    /\ UNCHANGED <<pc, cfg, inp, unm, sc, mat, ev, res>>

LoopDone ==
    /\ pc = "matching" /\ rem = {}
    /\ pc' = "loopdone"
    /\ UNCHANGED <<cfg, inp, unm, sc, rem, lm, mat, ev, res>>

DoRelabel ==
    /\ pc = "loopdone"
    /\ mat' = [mp |-> Relabel(unm.pr, unm.rf, lm), mr |-> unm.rf]
    /\ pc' = "matched"
    /\ UNCHANGED <<cfg, inp, unm, sc, rem, lm, ev, res>>

ZeroCheck2 ==
    /\ pc = "matched"
    /\ LET nP == Cardinality(Labels(mat.mp))  nR == Cardinality(Labels(mat.mr)) IN
       IF nP = 0 \/ nR = 0
       THEN /\ res' = MakeResult(nP, nR, 0, {}) /\ pc' = "result"
       ELSE /\ res' = res /\ pc' = "evaluate"
    /\ UNCHANGED <<cfg, inp, unm, sc, rem, lm, mat, ev>>

EvaluateDecide ==
    /\ pc = "evaluate"
    /\ LET pairs == PairsOfMatched(mat.mp, mat.mr) IN
       \E surv \in Survivors(cfg.dm, cfg.dthr, Shape, pairs) :
          ev' = [nP |-> Cardinality(Labels(mat.mp)), nR |-> Cardinality(Labels(mat.mr)),
                 pairs |-> pairs, surv |-> surv]
    /\ pc' = "evaluated"
    /\ UNCHANGED <<cfg, inp, unm, sc, rem, lm, mat, res>>

BuildResult ==
    /\ pc = "evaluated"
    /\ res' = MakeResult(ev.nP, ev.nR,
                         IF LegacyTpBeforeDecision THEN Cardinality(ev.pairs) ELSE Cardinality(ev.surv),
                         ev.surv)
    /\ pc' = "result"
    /\ UNCHANGED <<cfg, inp, unm, sc, rem, lm, mat, ev>>

Done == pc = "result" /\ UNCHANGED vars

Next ==
    \/ DoApproximate \/ ZeroCheck1 \/ Scan \/ (\E c \in rem : ProcessCandidate(c)) \/ LoopDone
    \/ DoRelabel \/ ZeroCheck2 \/ EvaluateDecide \/ BuildResult \/ Done

Spec == Init /\ [][Next]_vars /\ WF_vars(Next)

(***************************************************************************)
(* Properties.                                                             *)
(***************************************************************************)
M2O   == cfg.matcher = "m2o"
Naive == cfg.matcher \in {"naive", "m2o"}
InLoop == pc \in {"matching", "loopdone"}

\* C15 (model part): the caller's arrays are never changed
InputsUntouched == [][inp' = inp /\ cfg' = cfg]_vars

\* C03, at every step of the loop
InvPredFunctional == InLoop => PredFunctional(lm)
InvRefInjective   == (InLoop /\ cfg.matcher = "naive") => RefInjective(lm)
InvPairsOverlap   == InLoop => PairsOverlap(lm, sc)
InvPairsBeat      == (InLoop /\ Naive) => PairsBeat(cfg.mm, cfg.thr, lm, sc)
\* ... and at the end of the loop
InvMaximal        == (pc = "loopdone" /\ Naive) => Maximal(M2O, cfg.mm, cfg.thr, lm, sc)
InvStable         == (pc = "loopdone" /\ Naive) => Stable(M2O, cfg.mm, cfg.thr, lm, sc)
\* the loop machine and the closed-form operator used for trace validation agree
InvOperatorAgrees == pc = "loopdone" =>
                        lm \in AllowedLabelMapsSc(cfg.matcher, cfg.mm, cfg.thr, Shape, unm.pr, unm.rf, sc)
\* C14
InvSeededBySingle == (InLoop /\ cfg.matcher = "merge") => SeededByEligibleSingle(cfg.mm, cfg.thr, lm, sc)
InvFinalAtLeastSeed == (pc = "loopdone" /\ cfg.matcher = "merge") =>
                        FinalAtLeastBestSeed(cfg.mm, cfg.thr, Shape, unm.pr, unm.rf, lm, sc)
\* every merge step strictly improves (action property)
MergeImproves ==
    [][(pc = "matching" /\ cfg.matcher = "merge" /\ lm' # lm) =>
          \E c \in lm' \ lm :
             IF c[1] \in RefsOf(lm)
             THEN MayBeBetter(cfg.mm,
                              MergedScore(cfg.mm, Shape, unm.pr, unm.rf, c[1], PredsOf(lm', c[1])),
                              MergedScore(cfg.mm, Shape, unm.pr, unm.rf, c[1], PredsOf(lm, c[1])))
             ELSE MayBeat(cfg.mm, sc[c], cfg.thr)]_vars
\* the label map only grows
LmGrows == [][pc = "matching" => lm \subseteq lm']_vars

\* C04
InvRelabel == (pc = "matched" /\ cfg.input # "MAT") => RelabelOK(unm.pr, unm.rf, mat.mp, mat.mr, lm)

\* C03 termination: every evaluation reaches a result
Terminates == <>(pc = "result")

\* C02 bookkeeping on the result
InvBookkeeping ==
    pc = "result" =>
        /\ res.tp + res.fp = res.nP /\ res.tp + res.fn = res.nR
        /\ res.tp >= 0 /\ res.fp >= 0 /\ res.fn >= 0
        /\ \A m \in cfg.im : Len(res.lists[m]) = res.tp
        /\ res.rq = RQ(res.tp, res.nP, res.nR)
        /\ res.tp > 0 =>
              /\ IsRatV(res.rq) /\ Leq(Zero, res.rq.v) /\ Leq(res.rq.v, One)
              /\ \A m \in cfg.im \cap {"IOU", "DSC"} :
                    IsRatV(res.sq[m]) /\ Leq(Zero, res.sq[m].v) /\ Leq(res.sq[m].v, One)
              /\ {"IOU", "DSC"} \subseteq cfg.im => Leq(res.sq["IOU"].v, res.sq["DSC"].v)

\* C08
InvZeroTp ==
    (pc = "result" /\ res.tp = 0) =>
        /\ res.fp = res.nP /\ res.fn = res.nR
        /\ \A m \in cfg.im : res.sq[m] = Prescribed(cfg.h, m, Scenario(res.nP, res.nR))
        /\ \A m \in cfg.im : res.std[m] = EmptyStd(cfg.h)

\* C13
InvGlobal ==
    pc = "result" =>
        \A m \in cfg.gm :
            LET fgP == Fg(inp.pred)  fgR == Fg(inp.ref)  s == GlobalScenario(fgP = {}, fgR = {}) IN
            IF s # "NOT_EDGE" THEN res.glob[m].edge /\ res.glob[m].v = Prescribed(cfg.h, m, s)
            ELSE ~res.glob[m].edge /\ res.glob[m].v = Score(m, Shape, fgR, fgP)

\* phase order (C01): control only moves forward
Rank(p) == CASE p = "submitted" -> 0 [] p = "unmatched" -> 1 [] p = "scan" -> 2 [] p = "matching" -> 3
             [] p = "loopdone" -> 4 [] p = "matched" -> 5 [] p = "evaluate" -> 6 [] p = "evaluated" -> 7
             [] p = "result" -> 8
PhaseOrder == [][Rank(pc') >= Rank(pc)]_vars
=============================================================================
