----------------------------- MODULE Trace_Approx -----------------------------
(***************************************************************************)
(* Trace validation of ConnectedComponentsInstanceApproximator             *)
(* .approximate_instances (C05).  One ndjson line per recorded call:       *)
(*   shape, spred, sref   the semantic maps (jointly rank-renamed)         *)
(*   backend              "default" | "cc3d" | "scipy" (as configured)     *)
(*   out                  "ok" | "raise"                                   *)
(*   ipred, iref          the returned instance maps (raw labels)          *)
(*   npred, nref          the reported instance counts                     *)
(***************************************************************************)
EXTENDS PipelineOps, Json, IOUtils, TLC

T == ndJsonDeserialize(IOEnv.TRACE_FILE)
VARIABLES tid, l
vars == <<tid, l>>
Init == tid \in 1..Len(T) /\ l = 0
Next == l = 0 /\ l' = 1 /\ UNCHANGED tid
Spec == Init /\ [][Next]_vars

R  == T[tid]
Go == l = 1
Ok == Go /\ R.out = "ok"
B  == ResolveBackend(R.backend, R.shape)

T_Completes    == Go => R.out = "ok"
\* foreground unchanged, labels exactly 1..n, n = reported count
T_PredForeground == Ok => Fg(R.ipred) = Fg(R.spred)
T_RefForeground  == Ok => Fg(R.iref) = Fg(R.sref)
T_PredLabels1toN == Ok => Labels(R.ipred) = 1..R.npred
T_RefLabels1toN  == Ok => Labels(R.iref) = 1..R.nref
\* every instance connected, no two joinable instances left separate, never across semantic labels (cc3d)
T_PredIsCC == Ok => IsCCLabelling(B, R.shape, R.spred, R.ipred, R.npred)
T_RefIsCC  == Ok => IsCCLabelling(B, R.shape, R.sref, R.iref, R.nref)
\* cross-check against the constructive definition (fixpoint components)
T_PredPartition == Ok => PartitionOf(R.ipred) = InstParts(B, R.shape, R.spred)
T_RefPartition  == Ok => PartitionOf(R.iref) = InstParts(B, R.shape, R.sref)
=============================================================================
