CONSTANT Shape <- S222
CONSTANT MaxLabel = 2
INIT Init
NEXT Next
INVARIANT ComponentsAreCC
INVARIANT Discriminates
INVARIANT IsPartition
INVARIANT DefaultChoice
CHECK_DEADLOCK FALSE
