--------------------------- MODULE MC_Aggregator ---------------------------
(* Model-checking configurations of Aggregator.tla: constants as definitions. *)
EXTENDS Aggregator

E(a, s) == [agg |-> a, kind |-> "eval", subj |-> s]
St(a)   == [agg |-> a, kind |-> "stat", subj |-> "-"]

OneAgg  == <<"A">>
TwoAggs == <<"A", "B">>

\* 3 concurrent evaluate calls, one name submitted twice, plus a statistics call
CallsDup     == <<E("A", "a"), E("A", "b"), E("A", "a"), St("A")>>
\* the same name three times
CallsTriple  == <<E("A", "a"), E("A", "a"), E("A", "a")>>
\* 4 distinct subjects
CallsFour    == <<E("A", "a"), E("A", "b"), E("A", "c"), E("A", "d")>>
CallsFive    == <<E("A", "a"), E("A", "b"), E("A", "c"), E("A", "a"), St("A")>>
\* two evaluations and two statistics calls (used with SplitWrites: rows go out in two pieces)
CallsSplit   == <<E("A", "a"), E("A", "b"), St("A"), St("A")>>
CallsTwoStat == <<E("A", "a"), St("A"), E("A", "b")>>
CallsTwo     == <<E("A", "a"), E("A", "b")>>
CallsThree   == <<E("A", "a"), E("A", "b"), E("A", "c")>>
\* two neighbouring aggregators, same subject names
CallsSibling == <<E("A", "a"), E("B", "a"), E("A", "b")>>
CallsSibling2 == <<E("A", "a"), E("B", "a")>>

InitAbsent == [ex |-> FALSE, ls |-> <<>>]
InitEmpty  == [ex |-> TRUE,  ls |-> <<>>]
InitHeader == [ex |-> TRUE,  ls |-> <<"H">>]
InitRows   == [ex |-> TRUE,  ls |-> <<"H", "a">>]
InitForeign == [ex |-> TRUE,  ls |-> <<"X", "q">>]
InitOther  == [ex |-> TRUE,  ls |-> <<"H", "z">>]
=============================================================================
