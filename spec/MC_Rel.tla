------------------------------- MODULE MC_Rel -------------------------------
(***************************************************************************)
(* Model part of the relational properties C09, C10, C11, C12: theorems    *)
(* about the specification's own evaluation operator ExpectedOf, checked   *)
(* by TLC over all label-map pairs of a small grid:                        *)
(*   rename  the outcome summaries are unchanged by any injective renaming *)
(*           of prediction labels and of reference labels (jointly for     *)
(*           matched input)                                                *)
(*   geom    ... by zero-padding at every offset into a grid one voxel     *)
(*           larger per axis, by every axis flip and axis permutation      *)
(*   swap    exchanging prediction and reference mirrors the summaries     *)
(*           (one-to-one matcher, symmetric metric), when uniquely         *)
(*           determined                                                    *)
(*   groups  the restriction to a class group is blind to other groups     *)
(***************************************************************************)
EXTENDS PipelineOps, TLC
CONSTANTS Shape, MaxLabel, Mode
VARIABLES pred, ref, l
S22 == <<2, 2>>
S4  == <<4>>
S3  == <<3>>
N == NVox(Shape)
Maps == [1..N -> 0..MaxLabel]
Init == pred \in Maps /\ ref \in Maps /\ l = 0
Next == l = 0 /\ l' = 1 /\ UNCHANGED <<pred, ref>>

Kinds == {"UNM", "MAT", "SEM"}
Exp(kind, mm, thr, shape, p, r) == ExpectedOf(kind, "default", "naive", mm, thr, "IOU", <<1, 3>>, shape, p, r)
Summ(kind, mm, thr, shape, p, r) == {SummaryOf(shape, e) : e \in Exp(kind, mm, thr, shape, p, r)}
Cfgs == {<<"IOU", <<1, 2>>>>, <<"ASSD", <<1, 1>>>>}

\* ---- rename ----
Injections == {f \in [1..MaxLabel -> 1..(MaxLabel + 1)] : \A a, b \in 1..MaxLabel : f[a] = f[b] => a = b}
Ren(f, arr) == [v \in 1..Len(arr) |-> IF arr[v] = 0 THEN 0 ELSE f[arr[v]]]
RenameInvariant ==
    (l = 1 /\ Mode = "rename") =>
        \A c \in Cfgs : \A f \in Injections :
            /\ \A g \in Injections :
                  Summ("UNM", c[1], c[2], Shape, Ren(f, pred), Ren(g, ref)) = Summ("UNM", c[1], c[2], Shape, pred, ref)
            /\ Summ("MAT", c[1], c[2], Shape, Ren(f, pred), Ren(f, ref)) = Summ("MAT", c[1], c[2], Shape, pred, ref)
            /\ Summ("SEM", c[1], c[2], Shape, Ren(f, pred), Ren(f, ref)) = Summ("SEM", c[1], c[2], Shape, pred, ref)

\* ---- geometry ----
Bigger == [a \in 1..Len(Shape) |-> Shape[a] + 1]
PadOffsets == [1..Len(Shape) -> {0, 1}]
Perms == {p \in [1..Len(Shape) -> 1..Len(Shape)] : \A a, b \in 1..Len(Shape) : p[a] = p[b] => a = b}
GeomInvariant ==
    (l = 1 /\ Mode = "geom") =>
        \A c \in Cfgs : \A k \in Kinds :
            LET base == Summ(k, c[1], c[2], Shape, pred, ref) IN
            /\ \A off \in PadOffsets :
                  Summ(k, c[1], c[2], Bigger, Pad(Shape, pred, Bigger, off), Pad(Shape, ref, Bigger, off)) = base
            /\ \A ax \in 1..Len(Shape) :
                  Summ(k, c[1], c[2], Shape, Flip(Shape, pred, ax), Flip(Shape, ref, ax)) = base
            /\ \A p \in Perms :
                  Summ(k, c[1], c[2], PermShape(Shape, p), Permute(Shape, pred, p), Permute(Shape, ref, p)) = base

\* ---- swap ----
MirrorSummary(s) ==
    LET mt(t) == <<t[1], t[2], IF t[3][1] + t[3][2] = 0 THEN t[3] ELSE Norm(Div(Neg(t[3]), Add(One, t[3]))), t[4]>>
        ts == {mt(t) : t \in DOMAIN s.bag}
    IN [nP |-> s.nR, nR |-> s.nP, tp |-> s.tp,
        bag |-> [u \in ts |-> FoldSet(LAMBDA t, acc : acc + (IF mt(t) = u THEN s.bag[t] ELSE 0), 0, DOMAIN s.bag)]]
SwapMirror ==
    (l = 1 /\ Mode = "swap") =>
        \A c \in Cfgs : \A k \in Kinds :
            LET a == Summ(k, c[1], c[2], Shape, pred, ref)  b == Summ(k, c[1], c[2], Shape, ref, pred) IN
            (Cardinality(a) = 1 /\ Cardinality(b) = 1) => {MirrorSummary(s) : s \in a} = b

\* ---- groups ----
Groups == {{1}, {2}, {1, 2}}
GroupsBlind ==
    (l = 1 /\ Mode = "groups") =>
        \A g \in Groups :
            /\ Labels(RestrictTo(pred, g)) \subseteq g
            /\ Fg(RestrictTo(pred, g)) = SelSet(pred, g)
            /\ Labels(Binarize(RestrictTo(pred, g))) \subseteq {1}
            \* a voxel of another group never influences the group's input
            /\ \A v \in 1..N : pred[v] \notin g =>
                  RestrictTo([pred EXCEPT ![v] = 0], g) = RestrictTo(pred, g)
=============================================================================
