------------------------------- MODULE Stats -------------------------------
(***************************************************************************)
(* Dataset summaries of the statistics object (C20).  A column is the      *)
(* sequence of a group/metric's cells over the subjects; a cell is a value *)
(* record (EdgeCases.tla): finite [k |-> "rat", v |-> <<n, d>>] or one of  *)
(* the missing kinds (none / nan / inf / ninf / empty).  A summary is the  *)
(* mean, population variance (std^2), minimum and maximum of exactly the   *)
(* finite values, whatever the order of the subjects.                      *)
(***************************************************************************)
EXTENDS Integers, Sequences, FiniteSets, Rat

IsFinite(c) == c.k = "rat"
FiniteVals(col) == LET idx == {i \in 1..Len(col) : IsFinite(col[i])}
                       RECURSIVE Build(_)
                       Build(S) == IF S = {} THEN <<>>
                                   ELSE LET i == CHOOSE x \in S : \A y \in S : x <= y IN <<Norm(col[i].v)>> \o Build(S \ {i})
                   IN Build(idx)

RECURSIVE MinRat(_)
MinRat(s) == IF Len(s) = 1 THEN s[1] ELSE LET m == MinRat(Tail(s)) IN IF Leq(s[1], m) THEN s[1] ELSE m
RECURSIVE MaxRat(_)
MaxRat(s) == IF Len(s) = 1 THEN s[1] ELSE LET m == MaxRat(Tail(s)) IN IF Leq(m, s[1]) THEN s[1] ELSE m

HasSummary(col) == \E i \in 1..Len(col) : IsFinite(col[i])
Summary(col) == LET vs == FiniteVals(col) IN [avg |-> Mean(vs), var |-> Var(vs), min |-> MinRat(vs), max |-> MaxRat(vs)]

\* the loader's view of a cell: a finite value or missing
LoadedCell(c) == IF IsFinite(c) THEN [k |-> "rat", v |-> Norm(c.v)] ELSE [k |-> "none", v |-> <<0, 1>>]

\* across-groups summary of one metric: statistics over the per-group averages
AcrossGroups(cols) ==     \* cols: sequence (over groups) of columns of one metric, each with a summary
    LET avgs == [g \in 1..Len(cols) |-> Summary(cols[g]).avg] IN
    [avg |-> Mean(avgs), var |-> Var(avgs), min |-> MinRat(avgs), max |-> MaxRat(avgs)]

Permuted(col, p) == [i \in 1..Len(col) |-> col[p[i]]]
=============================================================================
