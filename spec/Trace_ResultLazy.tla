-------------------------- MODULE Trace_ResultLazy --------------------------
(* Trace validation of the lazy metrics of real PanopticaResult objects: one    *)
(* ndjson line per object and history of reads.                                 *)
(*   cf     the configuration record of ResultLazyOps (sets given as sequences) *)
(*   ev     <<[op, m, out, vis]>>: op "get" (metric m, outcome ok/err/exc),     *)
(*          "calc_all"; vis = keys of to_dict() after the operation             *)
EXTENDS ResultLazyOps, TLC, Json, IOUtils
Traces == ndJsonDeserialize(IOEnv.TRACE_FILE)
VARIABLES st, lastout, tid, l
Range(s) == {s[i] : i \in 1..Len(s)}
Tr == Traces[tid]
Cf == [lists |-> Range(Tr.cf.lists), globals |-> Range(Tr.cf.globals), nopred |-> Tr.cf.nopred, noref |-> Tr.cf.noref,
       tpzero |-> Tr.cf.tpzero, sqnone |-> Range(Tr.cf.sqnone)]
Init == tid \in 1..Len(Traces) /\ l = 0 /\ lastout = "-" /\ st = InitState([lists |-> Range(Traces[tid].cf.lists), globals |-> Range(Traces[tid].cf.globals),
                                                nopred |-> Traces[tid].cf.nopred, noref |-> Traces[tid].cf.noref, tpzero |-> Traces[tid].cf.tpzero,
                                                sqnone |-> Range(Traces[tid].cf.sqnone)])
Consume == /\ l < Len(Tr.ev) /\ l' = l + 1 /\ UNCHANGED tid
           /\ LET e == Tr.ev[l + 1] IN
              IF e.op = "get" THEN LET r == Read(Cf, st, e.m) IN st' = r.s /\ lastout' = r.out
              ELSE st' = ReadAll(Cf, st, 1) /\ lastout' = "-"
Next == Consume \/ (l = Len(Tr.ev) /\ UNCHANGED <<st, lastout, tid, l>>)
Spec == Init /\ [][Next]_<<st, lastout, tid, l>>
E == Tr.ev[l]
T_Outcome == (l >= 1 /\ E.op = "get") => E.out = lastout
T_Visible == l >= 1 => Range(E.vis) = Visible(st)
=============================================================================
