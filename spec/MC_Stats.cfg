CONSTANT N = 4
INIT Init
NEXT Next
INVARIANT PermInvariant
INVARIANT OnlyFinite
INVARIANT Sane
CHECK_DEADLOCK FALSE
