---------------------------- MODULE Trace_Config ----------------------------
(***************************************************************************)
(* Trace validation for C19: one record per real save -> load -> save      *)
(* round trip of a configurable object.                                    *)
(*   cls        class name                                                 *)
(*   params     the constructor parameters (names)                         *)
(*   orig[p]    token of the value the object was constructed with         *)
(*   saved      the keys found in the YAML mapping                         *)
(*   out        "ok" | "raise" (saving or loading raised)                  *)
(*   loaded[p]  token of the value the loaded object reports               *)
(*   same_text  saving the loaded object reproduces the same file          *)
(*   same_results  original and loaded object report identical results on  *)
(*              the probe inputs ("na" for components that do not evaluate) *)
(***************************************************************************)
EXTENDS Integers, Sequences, FiniteSets, TLC, Json, IOUtils
T == ndJsonDeserialize(IOEnv.TRACE_FILE)
VARIABLES tid, l
Init == tid \in 1..Len(T) /\ l = 0
Next == l = 0 /\ l' = 1 /\ UNCHANGED tid
Spec == Init /\ [][Next]_<<tid, l>>
R == T[tid]
Go == l = 1
Ok == Go /\ R.out = "ok"
Range(s) == {s[i] : i \in 1..Len(s)}
T_SavesAndLoads   == Go => R.out = "ok"
T_EverythingSaved == Ok => Range(R.params) \subseteq Range(R.saved)
T_FieldsPreserved == Ok => \A i \in 1..Len(R.params) : R.loaded[i] = R.orig[i]
T_SaveIdempotent  == Ok => R.same_text
T_SameResults     == Ok => R.same_results \in {"yes", "na"}
=============================================================================
