------------------------------- MODULE MC_Tsv -------------------------------
(* Model part of C18: over all group names of length <= MaxLen over a small   *)
(* alphabet that includes "-", "_", " " and an upper-case letter, and all      *)
(* dash-free metric keys, parsing a header cell at the last dash recovers      *)
(* group and metric, and header cells of different (group, metric) pairs       *)
(* differ (no column can be confused with another).  Legacy = TRUE shows the   *)
(* shipped split-at-every-dash fails (non-vacuity).                            *)
EXTENDS Tsv, TLC
CONSTANTS MaxLen, Legacy
Alphabet == {"a", "B", "-", "_", " "}
Names == UNION {[1..n -> Alphabet] : n \in 1..MaxLen}
Metrics == {<<"t", "p">>, <<"s", "q", "_", "d">>, <<"g", "_", "b">>}
VARIABLES g, h, l
Init == g \in Names /\ h \in Names /\ l = 0
Next == l = 0 /\ l' = 1 /\ UNCHANGED <<g, h>>
Parse(c) == IF Legacy THEN ParseCellLegacy(c) ELSE ParseCell(c)
RoundTrip == l = 1 => \A m \in Metrics : Parse(HeaderCell(g, m)) = <<g, m>>
Injective == l = 1 => \A m, k \in Metrics : HeaderCell(g, m) = HeaderCell(h, k) => (g = h /\ m = k)
MetricsDashFree == \A m \in Metrics : NoDashIn(m)
\* quoting: every row of two cells over a small alphabet with the special characters survives write + read
QAlphabet == {"a", TAB, DQ, LF, " "}
QCells == UNION {[1..n -> QAlphabet] : n \in 0..3}
QuoteRoundTrip == \A c \in QCells, d \in QCells : ParseRow(RowText(<<c, d>>)) = <<c, d>>
ASSUME QuoteRoundTrip
=============================================================================
