---------------------------- MODULE Trace_Metrics ----------------------------
(***************************************************************************)
(* Trace validation of direct metric calls Metric.X(reference, prediction, *)
(* ref_instance_idx, pred_instance_idx) (C06, C07).  One line per call:    *)
(*   shape, ref, pred   the two arrays (labels jointly rank-renamed,       *)
(*                      together with the requested labels)                *)
(*   metric             "DSC" | "IOU" | "RVD" | "ASSD" | "clDSC"           *)
(*   sel                TRUE iff a reference label and prediction label(s) *)
(*                      were passed; ri, pis the labels (pis a sequence)   *)
(*   val                the returned value (value record); zero: BOOLEAN   *)
(*   skr, skp           clDSC only: the skeletons of the two masks as      *)
(*                      voxel index sequences (recorded from skimage)      *)
(*   big                TRUE for long-range ASSD calls (an axis of more    *)
(*                      than 46340 voxels): squared distances are carried  *)
(*                      as pairs, see Grid.SqBig                           *)
(***************************************************************************)
EXTENDS PipelineOps, Json, IOUtils, TLC

T == ndJsonDeserialize(IOEnv.TRACE_FILE)
VARIABLES tid, l
vars == <<tid, l>>

R  == T[tid]
\* the voxel sets the call is about
RS == IF R.sel THEN Sel(R.ref, R.ri) ELSE Fg(R.ref)
PS == IF R.sel THEN SelSet(R.pred, {R.pis[i] : i \in 1..Len(R.pis)}) ELSE Fg(R.pred)

\* a bag as a sequence of <<squared distance, multiplicity>> (one JSON line per trace)
BagSeq(f) == SeqOfSet({<<d, Cardinality({v \in DOMAIN f : f[v] = d})>> : d \in {f[v] : v \in DOMAIN f}})
\* long-range: <<q, r, multiplicity>> for the squared distance q * 2^20 + r
BagSeqBig(f) == SeqOfSet({<<d[1], d[2], Cardinality({v \in DOMAIN f : f[v].sq = d})>> : d \in {f[v].sq : v \in DOMAIN f}})

Init == tid \in 1..Len(T) /\ l = 0
\* for ASSD the step also prints the two bags of squared nearest-border distances; the harness
\* finishes the real-number evaluation sum(sqrt) of exactly these bags (closed form, 1e-9)
Next == /\ l = 0 /\ l' = 1 /\ UNCHANGED tid
        /\ (R.metric = "ASSD" /\ RS # {} /\ PS # {}) =>
              IF R.big
              THEN PrintT(ToJson([bags |-> tid, a |-> BagSeqBig(SqDistMapBig(R.shape, PS, RS)),
                                                b |-> BagSeqBig(SqDistMapBig(R.shape, RS, PS))]))
              ELSE PrintT(ToJson([bags |-> tid, a |-> BagSeq(SqDistMap(R.shape, PS, RS)),
                                                b |-> BagSeq(SqDistMap(R.shape, RS, PS))]))
Spec == Init /\ [][Next]_vars

Go == l = 1
Ok == Go /\ R.out = "ok"
M  == R.metric

T_Completes == Go => R.out = "ok"
T_Dice == (Ok /\ M = "DSC" /\ (RS # {} \/ PS # {})) => R.val.k = "rat" /\ Norm(R.val.v) = DiceSets(RS, PS)
T_IoU  == (Ok /\ M = "IOU" /\ (RS # {} \/ PS # {})) => R.val.k = "rat" /\ Norm(R.val.v) = IoUSets(RS, PS)
T_RVD  == (Ok /\ M = "RVD" /\ RS # {}) => R.val.k = "rat" /\ Norm(R.val.v) = RVDSets(PS, RS)
\* consequences stated in C06 (on the reported value itself)
T_OverlapRange == (Ok /\ M \in {"DSC", "IOU"} /\ (RS # {} \/ PS # {})) =>
                     /\ R.val.k = "rat" /\ Leq(Zero, R.val.v) /\ Leq(R.val.v, One)
                     /\ (Norm(R.val.v) = One) <=> (RS = PS)
T_ClDice == (Ok /\ M = "clDSC" /\ Len(R.skr) > 0 /\ Len(R.skp) > 0) =>
               LET skr == {R.skr[i] : i \in 1..Len(R.skr)}  skp == {R.skp[i] : i \in 1..Len(R.skp)} IN
               /\ skr \subseteq RS /\ skp \subseteq PS
               /\ (Cardinality(PS \cap skr) + Cardinality(RS \cap skp) > 0) =>
                     (R.val.k = "rat" /\ Norm(R.val.v) = ClDice(RS, PS, skr, skp))
\* C07
T_Assd == (Ok /\ M = "ASSD" /\ RS # {} /\ PS # {}) =>
             /\ R.val.k = "milli"
             /\ IF R.big
                THEN LET iv == ASSDMilliBig(R.shape, RS, PS) IN iv[1] <= R.val.v[1] + 2 /\ R.val.v[1] - 1 <= iv[2]
                ELSE MilliIn(R.val.v[1], ASSDScore(R.shape, RS, PS))
T_AssdZeroIff == (Ok /\ M = "ASSD" /\ RS # {} /\ PS # {}) => (R.zero <=> ASSDIsZero(R.shape, RS, PS))
T_AssdNonNeg  == (Ok /\ M = "ASSD" /\ RS # {} /\ PS # {}) => R.val.k = "milli" /\ R.val.v[1] >= 0
=============================================================================
