CONSTANT Aggs <- OneAgg
CONSTANT Calls <- CallsDup
CONSTANT InitOut <- InitAbsent
CONSTANT MaxCrashes = 0
CONSTANT MaxSessions = 1
CONSTANT NormalExit = TRUE
CONSTANT MaxWorkerKills = 1
CONSTANT HeaderOnEmpty = TRUE
CONSTANT OwnBuffer = TRUE
CONSTANT HeaderNoClaim = TRUE
CONSTANT SplitWrites = FALSE
CONSTANT StatWrongLock = FALSE
SPECIFICATION Spec
VIEW view
INVARIANT NoDupRows
INVARIANT HeaderFirstOnce
INVARIANT RowsAreSubjects
INVARIANT SnapOnlyComplete
INVARIANT LocksConsistent
INVARIANT NoCallFailed
INVARIANT SiblingsIndependent
PROPERTY RowsAppendOnly
INVARIANT NoOrphanedLock
PROPERTY SurvivorsReturn
