------------------------------- MODULE Rat -------------------------------
(***************************************************************************)
(* Exact rational arithmetic for TLC.  A rational is a pair <<n, d>> with  *)
(* d > 0.  TLC integers are 32-bit and TLC traps overflow loudly, so every *)
(* operator here keeps numbers small by normalising with gcd, and callers  *)
(* choose universes in which products stay below 2^31.                     *)
(* Also: integer square roots and interval arithmetic for surds (ASSD).    *)
(***************************************************************************)
EXTENDS Integers, Sequences, FiniteSets

Abs(x) == IF x < 0 THEN -x ELSE x
Max2(a, b) == IF a >= b THEN a ELSE b
Min2(a, b) == IF a <= b THEN a ELSE b

RECURSIVE Gcd(_, _)
Gcd(a, b) == IF b = 0 THEN Abs(a) ELSE Gcd(b, a % b)

Lcm(a, b) == IF a = 0 \/ b = 0 THEN 0 ELSE (Abs(a) \div Gcd(a, b)) * Abs(b)

IsRat(q) == /\ q \in Seq(Int) /\ Len(q) = 2 /\ q[2] > 0

Norm(q) == LET g == Gcd(q[1], q[2]) IN
           IF g = 0 THEN <<0, 1>> ELSE <<q[1] \div g, q[2] \div g>>

RatOf(n) == <<n, 1>>
Zero == <<0, 1>>
One  == <<1, 1>>

\* Comparison.  Small operands: cross-multiplication (denominators are positive).  Large operands
\* (voxel counts beyond 2^15, where the products would overflow TLC's 32-bit integers): comparison of
\* the continued-fraction expansions, which needs divisions only.
RECURSIVE LessQ(_, _, _, _)
LessQ(a, b, c, d) ==      \* a/b < c/d  for a, c >= 0 and b, d > 0
    LET qa == a \div b  qc == c \div d IN
    IF qa # qc THEN qa < qc
    ELSE LET ra == a % b  rc == c % d IN
         IF rc = 0 THEN FALSE
         ELSE IF ra = 0 THEN TRUE
         ELSE LessQ(d, rc, b, ra)
SmallPair(a, b) == Abs(a[1]) < 46000 /\ a[2] < 46000 /\ Abs(b[1]) < 46000 /\ b[2] < 46000
Less(a, b) == IF SmallPair(a, b) THEN a[1] * b[2] < b[1] * a[2]
              ELSE IF a[1] < 0 /\ b[1] >= 0 THEN TRUE
              ELSE IF a[1] >= 0 /\ b[1] < 0 THEN FALSE
              ELSE IF a[1] >= 0 THEN LessQ(a[1], a[2], b[1], b[2])
              ELSE LessQ(-b[1], b[2], -a[1], a[2])
Leq(a, b)  == ~Less(b, a)
Eq(a, b)   == ~Less(a, b) /\ ~Less(b, a)

Add(a, b) == LET l == Lcm(a[2], b[2]) IN
             Norm(<<a[1] * (l \div a[2]) + b[1] * (l \div b[2]), l>>)
Neg(a)    == <<-a[1], a[2]>>
Sub(a, b) == Add(a, Neg(b))
\* cancel crosswise first so that intermediate products stay small
Mul(a, b) == LET g1 == Gcd(a[1], b[2])  g2 == Gcd(b[1], a[2]) IN
             IF a[1] = 0 \/ b[1] = 0 THEN Zero
             ELSE Norm(<<(a[1] \div g1) * (b[1] \div g2), (a[2] \div g2) * (b[2] \div g1)>>)
Inv(a)    == IF a[1] > 0 THEN <<a[2], a[1]>> ELSE <<-a[2], -a[1]>>
Div(a, b) == Mul(a, Inv(b))

RECURSIVE SumSeq(_)
SumSeq(s) == IF s = <<>> THEN Zero ELSE Add(Head(s), SumSeq(Tail(s)))

Mean(s) == Div(SumSeq(s), RatOf(Len(s)))

\* population variance:  (1/n) * sum (x - mean)^2
Var(s) == LET m == Mean(s)
              sq == [i \in 1..Len(s) |-> LET d == Sub(s[i], m) IN Mul(d, d)]
          IN Div(SumSeq(sq), RatOf(Len(s)))

RECURSIVE SumInts(_)
SumInts(s) == IF s = <<>> THEN 0 ELSE Head(s) + SumInts(Tail(s))

\* multiset equality of two sequences (of any comparable values)
SameBag(s, t) ==
    /\ Len(s) = Len(t)
    /\ \A i \in 1..Len(s) :
          Cardinality({j \in 1..Len(s) : s[j] = s[i]}) =
          Cardinality({j \in 1..Len(t) : t[j] = s[i]})

(***************************************************************************)
(* Integer square root by bisection: Isqrt(k) = floor(sqrt(k)), k < 2^31.  *)
(* hi starts at 46341 > sqrt(2^31) and mid*mid is only evaluated for       *)
(* mid <= 46340, so nothing overflows.                                     *)
(***************************************************************************)
RECURSIVE IsqrtB(_, _, _)
IsqrtB(k, lo, hi) ==   \* invariant lo^2 <= k < hi^2
    IF hi - lo <= 1 THEN lo
    ELSE LET mid == (lo + hi) \div 2 IN
         IF mid * mid <= k THEN IsqrtB(k, mid, hi) ELSE IsqrtB(k, lo, mid)
Isqrt(k) == IF k <= 0 THEN 0 ELSE IsqrtB(k, 0, 46341)

IsSquare(k) == LET r == Isqrt(k) IN r * r = k

\* guaranteed lower / upper bounds of 1000*sqrt(k): exact to one unit for k <= 2147, coarser (but still
\* sound) for larger k, where k * 10^6 would overflow TLC's 32-bit integers
SqrtMilliLo(k) == IF k <= 2147 THEN Isqrt(k * 1000000)
                  ELSE IF k <= 214748 THEN Isqrt(k * 10000) * 10
                  ELSE Isqrt(k * 100) * 100
SqrtMilliHi(k) == IF IsSquare(k) THEN Isqrt(k) * 1000
                  ELSE IF k <= 2147 THEN Isqrt(k * 1000000) + 1
                  ELSE IF k <= 214748 THEN (Isqrt(k * 10000) + 1) * 10
                  ELSE (Isqrt(k * 100) + 1) * 100
=============================================================================
