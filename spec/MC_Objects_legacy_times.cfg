CONSTANT Cfgs = {"c1", "c2", "c5"}
CONSTANT DefaultCfgs = {"c1", "c5"}
CONSTANT RejectedCfgs = {"c5"}
CONSTANT MutateArgs = FALSE
CONSTANT Inputs = {"i1", "i2"}
CONSTANT MaxEvaluators = 2
CONSTANT MaxSteps = 4
CONSTANT AliasKeys = FALSE
CONSTANT PerCallTimes = TRUE
SPECIFICATION Spec
INVARIANT Deterministic
INVARIANT NoCallRaises
INVARIANT KeysAreBase
INVARIANT ArgsAreNominal
PROPERTY ArgsUntouched
PROPERTY KeysStable
CHECK_DEADLOCK FALSE
