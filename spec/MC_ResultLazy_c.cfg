CONSTANT Lists <- L1
CONSTANT Globals = {"DSC", "IOU"}
CONSTANT NoPred = TRUE
CONSTANT NoRef = TRUE
CONSTANT TpZero = TRUE
CONSTANT SqNone = {"IOU"}
SPECIFICATION Spec
INVARIANT OrderIndependent
INVARIANT Idempotent
PROPERTY Final
CHECK_DEADLOCK FALSE
CONSTANT Probe = {"prec", "rec", "rq", "pq", "sq_dsc", "pq_dsc", "sq_assd_std", "global_bin_iou"}
