CONSTANT Aggs <- OneAgg
CONSTANT Calls <- CallsSplit
CONSTANT InitOut <- InitAbsent
CONSTANT MaxCrashes = 0
CONSTANT MaxSessions = 1
CONSTANT NormalExit = TRUE
CONSTANT MaxWorkerKills = 0
CONSTANT HeaderOnEmpty = TRUE
CONSTANT OwnBuffer = TRUE
CONSTANT HeaderNoClaim = TRUE
CONSTANT SplitWrites = TRUE
CONSTANT StatWrongLock = TRUE
SPECIFICATION Spec
VIEW view
INVARIANT NoDupRows
INVARIANT HeaderFirstOnce
INVARIANT RowsAreSubjects
INVARIANT SnapOnlyComplete
INVARIANT LocksConsistent
INVARIANT ExactlyOnePerSubject
INVARIANT NoCallFailed
INVARIANT SiblingsIndependent
PROPERTY RowsAppendOnly
PROPERTY AllDone
