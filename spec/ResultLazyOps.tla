---------------------------- MODULE ResultLazyOps ----------------------------
(***************************************************************************)
(* Operators of the lazy-metric state machine (see ResultLazy.tla),        *)
(* parameterised by the configuration record                               *)
(*   cf = [lists, globals : sets of list metric names, nopred, noref,      *)
(*         tpzero : BOOLEAN, sqnone : set of list metric names]            *)
(* so that the trace specification can use them per recorded result.       *)
(***************************************************************************)
EXTENDS Integers, Sequences, FiniteSets

ListMetrics == {"IOU", "DSC", "clDSC", "ASSD", "RVD"}
SqName(lm) == CASE lm = "IOU" -> "sq" [] lm = "DSC" -> "sq_dsc" [] lm = "clDSC" -> "sq_cldsc" [] lm = "ASSD" -> "sq_assd" [] lm = "RVD" -> "sq_rvd"
\* all metrics in the order the result object registers them
Order == <<"num_ref_instances", "num_pred_instances", "tp", "fp", "fn", "prec", "rec", "rq",
           "sq", "sq_std", "pq", "sq_dsc", "sq_dsc_std", "pq_dsc", "sq_cldsc", "sq_cldsc_std", "pq_cldsc",
           "sq_assd", "sq_assd_std", "sq_rvd", "sq_rvd_std",
           "global_bin_dsc", "global_bin_iou", "global_bin_assd", "global_bin_cldsc", "global_bin_rvd">>
All == {Order[i] : i \in 1..Len(Order)}
Given == {"num_ref_instances", "num_pred_instances", "tp"}
GlobalName(g) == CASE g = "DSC" -> "global_bin_dsc" [] g = "IOU" -> "global_bin_iou" [] g = "ASSD" -> "global_bin_assd"
                   [] g = "clDSC" -> "global_bin_cldsc" [] g = "RVD" -> "global_bin_rvd"
GlobalNames == {GlobalName(g) : g \in ListMetrics}

\* which list a metric is computed from ("-" = none)
ListOf(m) == CASE m \in {"sq", "sq_std", "pq"} -> "IOU" [] m \in {"sq_dsc", "sq_dsc_std", "pq_dsc"} -> "DSC"
               [] m \in {"sq_cldsc", "sq_cldsc_std", "pq_cldsc"} -> "clDSC" [] m \in {"sq_assd", "sq_assd_std"} -> "ASSD"
               [] m \in {"sq_rvd", "sq_rvd_std"} -> "RVD" [] OTHER -> "-"
IsPq(m) == m \in {"pq", "pq_dsc", "pq_cldsc"}
SqOf(m) == CASE m = "pq" -> "sq" [] m = "pq_dsc" -> "sq_dsc" [] m = "pq_cldsc" -> "sq_cldsc"

\* the metrics a computation reads, in the order it reads them
Deps(cf, m) == CASE m = "prec" -> <<"fp">> [] m = "rec" -> <<"fn">>
             [] m = "rq" -> (IF cf.tpzero THEN <<>> ELSE <<"fp", "fn">>)
             [] IsPq(m) -> <<SqOf(m), "rq">>
             [] OTHER -> <<>>

\* own failure of the computation of m once its dependencies are there
OwnErr(cf, m) == \/ (ListOf(m) # "-" /\ ~IsPq(m) /\ ListOf(m) \notin cf.lists)        \* list not requested
             \/ (m \in GlobalNames)                                             \* global metric not requested
OwnExc(cf, m) == \/ (m = "prec" /\ cf.nopred) \/ (m = "rec" /\ cf.noref)
             \/ (IsPq(m) /\ ListOf(m) \in cf.sqnone)

(***************************************************************************)
(* Reading metric m in state s: the new state and the outcome              *)
(* "ok" | "err" (MetricCouldNotBeComputedException) | "exc" (other).       *)
(***************************************************************************)
RECURSIVE Read(_, _, _)
RECURSIVE ReadDeps(_, _, _)
ReadDeps(cf, s, ds) ==      \* read the dependencies left to right; stop at the first failure
    IF ds = <<>> THEN [s |-> s, out |-> "ok"]
    ELSE LET r == Read(cf, s, Head(ds)) IN
         IF r.out # "ok" THEN r ELSE ReadDeps(cf, r.s, Tail(ds))
Read(cf, s, m) ==
    IF s[m] = "ok" THEN [s |-> s, out |-> "ok"]
    ELSE IF s[m] = "err" THEN [s |-> s, out |-> "err"]
    ELSE LET d == ReadDeps(cf, s, Deps(cf, m)) IN
         IF d.out = "err" THEN [s |-> [d.s EXCEPT ![m] = "err"], out |-> "err"]      \* a dependency could not be computed
         ELSE IF d.out = "exc" THEN [s |-> d.s, out |-> "exc"]                       \* arithmetic failure below: m stays new
         ELSE IF OwnErr(cf, m) THEN [s |-> [d.s EXCEPT ![m] = "err"], out |-> "err"]
         ELSE IF OwnExc(cf, m) THEN [s |-> d.s, out |-> "exc"]
         ELSE [s |-> [d.s EXCEPT ![m] = "ok"], out |-> "ok"]

RECURSIVE ReadAll(_, _, _)
ReadAll(cf, s, i) == IF i > Len(Order) THEN s ELSE ReadAll(cf, Read(cf, s, Order[i]).s, i + 1)


InitState(cf) == [m \in All |-> IF m \in Given \/ m \in {GlobalName(g) : g \in cf.globals} THEN "ok" ELSE "new"]
Visible(s) == {m \in All : s[m] = "ok"}
=============================================================================
