------------------------------- MODULE AggObs -------------------------------
(***************************************************************************)
(* Observation-level specification of the aggregator: only what a user can *)
(* see - the contents of the files after every recorded operation, which   *)
(* calls returned, what a statistics object contained.  It knows nothing   *)
(* about the order of lock and file operations inside the code, so it      *)
(* keeps judging the listed properties when the implementation's step      *)
(* structure drifts away from Aggregator.tla (DESIGN 5: DRIFT).            *)
(*   TRACE_FILE  ndjson, one trace per line:                               *)
(*     subjects  [agg -> sequence of submitted subjects] (record by agg)   *)
(*     prior     sequence of subjects already in the initial file          *)
(*     ev        <<[files, snaps, mid]>>  files as in Trace_Aggregator,    *)
(*               snaps: sequence of statistics snapshots taken so far      *)
(*               (rows: what the object holds; seen: the complete rows in  *)
(*               the file when its caller read it), mid: output files that *)
(*               are between the two pieces of a row (split-write          *)
(*               environment: their last line "~s" is a torn line)         *)
(*     ends      set of event indices at which a session ended unkilled    *)
(*     outs      the output file names                                     *)
(*     foreign   the initial file carries another configuration's header   *)
(*     ctorfailed  some constructor raised                                 *)
(***************************************************************************)
EXTENDS Integers, Sequences, FiniteSets, TLC, Json, IOUtils

Traces == ndJsonDeserialize(IOEnv.TRACE_FILE)
VARIABLES tid, l, files, prev
Tr == Traces[tid]
Range(s) == {s[i] : i \in 1..Len(s)}
Count(s, x) == Cardinality({i \in 1..Len(s) : s[i] = x})

Init == tid \in 1..Len(Traces) /\ l = 0 /\ files = Traces[tid].init /\ prev = Traces[tid].init
Next == \/ /\ l < Len(Tr.ev) /\ l' = l + 1 /\ UNCHANGED tid
           /\ prev' = files /\ files' = Tr.ev[l + 1].files
        \/ l = Len(Tr.ev) /\ UNCHANGED <<tid, l, files, prev>>
Spec == Init /\ [][Next]_<<tid, l, files, prev>>

Outs == Range(Tr.outs)
Subj(o) == Range(Tr.subjects[o]) \cup Range(Tr.prior)
TornOf(o) == {"~" \o s : s \in Subj(o)}
\* the lines of an output file; while a writer is between the two pieces of a row, without that torn last line
StripTorn(ls, o) == IF Len(ls) > 0 /\ ls[Len(ls)] \in TornOf(o) THEN SubSeq(ls, 1, Len(ls) - 1) ELSE ls
Rows(o) == IF l >= 1 /\ o \in Range(Tr.ev[l].mid) THEN StripTorn(files[o].ls, o) ELSE files[o].ls

NoDupRows       == l >= 1 => \A o \in Outs : \A s \in Range(Rows(o)) \ {"H"} : Count(Rows(o), s) = 1
HeaderFirstOnce == (l >= 1 /\ ~Tr.foreign) => \A o \in Outs : Len(Rows(o)) > 0 => Rows(o)[1] = "H" /\ Count(Rows(o), "H") = 1
RowsAreSubjects == l >= 1 => \A o \in Outs : Range(Rows(o)) \subseteq {"H"} \cup Subj(o) \cup (IF Tr.foreign THEN {"X"} ELSE {})
\* an output file written with another configuration (foreign header) is refused by the constructor
\* and never modified
ForeignRefused == (l >= 1 /\ Tr.foreign) => (files = Tr.init /\ (l = Len(Tr.ev) => Tr.ctorfailed))
RowsAppendOnly  == l >= 1 => \A o \in Outs : LET old == StripTorn(prev[o].ls, o)  new == StripTorn(files[o].ls, o) IN
                                             /\ Len(new) >= Len(old) /\ SubSeq(new, 1, Len(old)) = old
\* at the unkilled end of a session: header once and every subject exactly once
ExactlyOnePerSubject ==
    (l >= 1 /\ l \in Range(Tr.ends)) =>
        \A o \in Outs : /\ Len(Rows(o)) > 0 /\ Rows(o)[1] = "H"
                        /\ \A s \in Subj(o) : Count(Rows(o), s) = 1
SnapOnlyComplete ==
    l >= 1 => \A i \in 1..Len(Tr.ev[l].snaps) :
                 Range(Tr.ev[l].snaps[i].rows) \subseteq Subj(Tr.ev[l].snaps[i].out)
\* a statistics object reflects only rows that were complete in the file when its caller read it
SnapWithinRead ==
    l >= 1 => \A i \in 1..Len(Tr.ev[l].snaps) : Range(Tr.ev[l].snaps[i].rows) \subseteq Range(Tr.ev[l].snaps[i].seen)
NoCallFailed == l >= 1 => Tr.ev[l].failed = 0
\* constructing an aggregator on a file of its own configuration (or on no / an empty file) never fails
CtorSucceeds == (l >= 1 /\ l = Len(Tr.ev) /\ ~Tr.foreign) => ~Tr.ctorfailed
=============================================================================
