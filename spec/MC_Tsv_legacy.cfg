CONSTANT MaxLen = 2
CONSTANT Legacy = TRUE
INIT Init
NEXT Next
INVARIANT RoundTrip
CHECK_DEADLOCK FALSE
