SPECIFICATION Spec
INVARIANT T_Completes
INVARIANT T_Counts
INVARIANT T_Tp
INVARIANT T_FpFn
INVARIANT T_Lists
INVARIANT T_Rq
INVARIANT T_Sq
INVARIANT T_Std
INVARIANT T_ZeroTpSq
INVARIANT T_ZeroTpStd
INVARIANT T_Ambiguous
INVARIANT T_Global
INVARIANT T_BookCounts
INVARIANT T_BookLists
INVARIANT T_BookRq
INVARIANT T_BookSq
INVARIANT T_BookStd
INVARIANT T_BookPq
INVARIANT T_BookRanges
CHECK_DEADLOCK FALSE
INVARIANT T_BookDecision
