------------------------------ MODULE Trace_Crop ------------------------------
(***************************************************************************)
(* Beyond the listed properties (DESIGN 3.4): crop_data / uncrop_data of a *)
(* processing pair.  One record per call sequence crop -> uncrop:          *)
(*   shape, pred, ref        the original arrays                           *)
(*   cshape, off             shape and per-axis offset of the crop         *)
(*   cpred, cref             the cropped arrays                            *)
(*   upred, uref             the arrays after uncrop_data                  *)
(* Cropping must cut out a box that contains every foreground voxel of     *)
(* both arrays, and uncropping must restore the original label maps.       *)
(***************************************************************************)
EXTENDS Grid, Json, IOUtils, TLC
T == ndJsonDeserialize(IOEnv.TRACE_FILE)
VARIABLES tid, l
Init == tid \in 1..Len(T) /\ l = 0
Next == l = 0 /\ l' = 1 /\ UNCHANGED tid
Spec == Init /\ [][Next]_<<tid, l>>
R == T[tid]
Ok == l = 1 /\ R.out = "ok"
Inside(v) == \A a \in 1..Len(R.shape) : Coord(R.shape, v, a) >= R.off[a] /\ Coord(R.shape, v, a) < R.off[a] + R.cshape[a]
T_Completes == l = 1 => R.out = "ok"
\* the crop is the sub-array at the recorded offset ...
T_CropIsSubarray == Ok => /\ Pad(R.cshape, R.cpred, R.shape, R.off) = [v \in 1..NVox(R.shape) |-> IF Inside(v) THEN R.pred[v] ELSE 0]
                          /\ Pad(R.cshape, R.cref, R.shape, R.off) = [v \in 1..NVox(R.shape) |-> IF Inside(v) THEN R.ref[v] ELSE 0]
\* ... and loses no foreground voxel of either array
T_NoVoxelLost == Ok => \A v \in 1..NVox(R.shape) : (R.pred[v] # 0 \/ R.ref[v] # 0) => Inside(v)
\* uncrop_data restores both label maps
T_UncropRestores == Ok => R.upred = R.pred /\ R.uref = R.ref
=============================================================================
