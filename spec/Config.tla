------------------------------- MODULE Config -------------------------------
(***************************************************************************)
(* Saving and loading configurations (C19).  A configurable object of      *)
(* class c is a record of its constructor parameters Params[c].  Saving    *)
(* writes the fields Saved[c]; loading calls the constructor with the      *)
(* saved fields and takes the declared default for every parameter that    *)
(* is not in the file.                                                     *)
(*                                                                         *)
(* Params, Saved, Default and the value domains Dom are CONSTANTS          *)
(* EXTRACTED FROM THE WORKING TREE by the harness (inspect.signature and   *)
(* the keys of the YAML representation of a probe instance): if a field is *)
(* dropped from a YAML representation, it is TLC that exhibits the         *)
(* configuration that no longer survives the round trip.                   *)
(***************************************************************************)
EXTENDS Integers, Sequences, FiniteSets, TLC

CONSTANTS Classes, Params, Saved, Default, Dom

VARIABLES o, l

\* configurations of class c in which at most two parameters differ from their default
Base(c) == [p \in Params[c] |-> Default[c][p]]
Objs(c) == {Base(c)}
           \cup {[Base(c) EXCEPT ![p] = x] : p \in Params[c], x \in UNION {Dom[c][q] : q \in Params[c]}}
           \cup {[Base(c) EXCEPT ![pq[1]] = xy[1], ![pq[2]] = xy[2]] :
                    pq \in Params[c] \X Params[c], xy \in (UNION {Dom[c][q] : q \in Params[c]}) \X (UNION {Dom[c][q] : q \in Params[c]})}
WellTyped(c, f) == \A p \in Params[c] : f[p] \in Dom[c][p]

Save(c, f) == [p \in Saved[c] \cap Params[c] |-> f[p]]
Load(c, y) == [p \in Params[c] |-> IF p \in DOMAIN y THEN y[p] ELSE Default[c][p]]

Init == \E c \in Classes : \E f \in {g \in Objs(c) : WellTyped(c, g)} : o = [cls |-> c, f |-> f] /\ l = 0
Next == l = 0 /\ l' = 1 /\ UNCHANGED o

RoundTrip      == l = 1 => Load(o.cls, Save(o.cls, o.f)) = o.f
SaveIdempotent == l = 1 => Save(o.cls, Load(o.cls, Save(o.cls, o.f))) = Save(o.cls, o.f)
EverythingSaved == \A c \in Classes : Params[c] \subseteq Saved[c]
=============================================================================
