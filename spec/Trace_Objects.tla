---------------------------- MODULE Trace_Objects ----------------------------
(***************************************************************************)
(* Trace validation of histories of API calls on shared panoptica objects  *)
(* (C15).  One ndjson line per history; every event is one completed call:*)
(*   act     "new_evaluator" | "evaluate" | "query_keys" | "new_aggregator" | "save" *)
(*   e, c    evaluator index, configuration id        inp  input id        *)
(*   sgt, ra, log, vb, pool   the options of the call (Objects.tla)        *)
(*   out     "ok" | "raise"                                                *)
(*   res     digest of the reported metrics (evaluate)                     *)
(*   inb, ina  digests of the caller's arrays before / after the call      *)
(*   keys    <<[e, c, k]>> advertised keys of every evaluator that has     *)
(*           computed them, observed after the call                        *)
(*   saved   <<[e, d]>> digest of save_to_config of every evaluator        *)
(*   src     new_evaluator: where the metric-list argument came from       *)
(*           ("fresh" | "shared" | "default", Objects.tla)                 *)
(*   args    <<[n, d]>> content of every argument object of the caller     *)
(*           (its shared metric lists) and of the constructor's default    *)
(*           arguments, observed after the call; argsb: before it          *)
(* The history must be a behaviour of Objects.tla (the step is the         *)
(* module's own Next, bound to the logged action), and the observations    *)
(* must satisfy the named clauses; first-seen values are remembered in     *)
(* memo / keys0 / saved0.                                                  *)
(***************************************************************************)
EXTENDS Integers, Sequences, FiniteSets, TLC, Json, IOUtils

Traces == ndJsonDeserialize(IOEnv.TRACE_FILE)
VARIABLES evs, lists, mlists, aggs, hist, last, steps, tid, l, memo, keys0, saved0, args0
ovars == <<evs, lists, mlists, aggs, hist, last, steps>>

O == INSTANCE Objects WITH Cfgs <- {"c1", "c2", "c3", "c4", "c5"}, Inputs <- {"i1", "i2", "i3"}, MaxEvaluators <- 3, MaxSteps <- 1000,
                           AliasKeys <- FALSE, PerCallTimes <- FALSE,
                           DefaultCfgs <- {"c1", "c5"}, RejectedCfgs <- {"c5"}, MutateArgs <- FALSE

Ev == Traces[tid].ev
E  == Ev[l]
Range(s) == {s[i] : i \in 1..Len(s)}

\* keys0 starts with what a fresh evaluator of each configuration advertises when asked first thing
\* (Traces[tid].nominal): the advertised keys are a function of the configuration alone
Init == O!Init /\ tid \in 1..Len(Traces) /\ l = 0 /\ memo = {} /\ saved0 = {} /\ args0 = {}
        /\ keys0 = {<<n.c, n.k>> : n \in Range(Traces[tid].nominal)}
Consume ==
    /\ l < Len(Ev) /\ l' = l + 1 /\ UNCHANGED tid
    /\ O!Next
    /\ LET n == Ev[l + 1] IN
       /\ last'.act = n.act /\ last'.e = n.e /\ last'.c = n.c /\ last'.inp = n.inp
       /\ last'.sgt = n.sgt /\ last'.ra = n.ra /\ last'.log = n.log /\ last'.vb = n.vb /\ last'.pool = n.pool
       /\ last'.src = n.src
       /\ args0' = args0 \cup {<<a.n, a.d>> : a \in {x \in Range(n.argsb) : ~\E y \in args0 : y[1] = x.n}}
       /\ memo' = IF n.act = "evaluate" /\ n.out = "ok" /\ ~\E m \in memo : m[1] = n.c /\ m[2] = n.inp
                  THEN memo \cup {<<n.c, n.inp, n.res>>} ELSE memo
       /\ keys0' = keys0 \cup {<<k.c, k.k>> : k \in {x \in Range(n.keys) : ~\E y \in keys0 : y[1] = x.c}}
       /\ saved0' = saved0 \cup {<<s.e, s.d>> : s \in {x \in Range(n.saved) : ~\E y \in saved0 : y[1] = x.e}}
AtEnd == l = Len(Ev) /\ UNCHANGED <<ovars, tid, l, memo, keys0, saved0, args0>>
Next == Consume \/ AtEnd
Spec == Init /\ [][Next]_<<ovars, tid, l, memo, keys0, saved0, args0>>

Go == l >= 1
\* every call completes; only the uses of a rejected configuration may be refused (C15 does not
\* demand the refusal: an implementation that makes such a configuration work is as good)
RefusedCall       == E.c = "c5" /\ E.act \in {"evaluate", "query_keys", "new_aggregator"}
T_NoRaise         == Go => (E.out = "ok" \/ RefusedCall)
T_InputsUntouched == Go => E.inb = E.ina
T_Deterministic   == (Go /\ E.act = "evaluate" /\ E.out = "ok") => <<E.c, E.inp, E.res>> \in memo
T_KeysStable      == Go => \A k \in Range(E.keys) : <<k.c, k.k>> \in keys0
T_SavedStable     == Go => \A s \in Range(E.saved) : <<s.e, s.d>> \in saved0
T_ArgsUntouched   == Go => \A a \in Range(E.args) \cup Range(E.argsb) : <<a.n, a.d>> \in args0
\* the model's own invariants on the inferred state
T_ModelKeys       == O!KeysAreBase
=============================================================================
