------------------------------ MODULE Metrics ------------------------------
(***************************************************************************)
(* The instance metrics of panoptica as set theory over voxel sets         *)
(* (metrics.md): Dice, IoU, RVD exactly as rationals; ASSD as a guaranteed *)
(* integer interval for 1000*ASSD (TLC has no reals: the combinatorial     *)
(* part - which voxels are border voxels and which border voxel is nearest *)
(* - is exact, only the final square roots are bounded from both sides).   *)
(*                                                                         *)
(* A *score* is an interval [lo |-> rat, hi |-> rat]; exact metrics have   *)
(* lo = hi.  Direction-aware comparisons come in a "definitely" flavour so *)
(* that whatever cannot be decided at milli resolution is treated as a tie *)
(* (every behaviour allowed): the specification never raises a false alarm *)
(* because of the bounded square root.                                     *)
(***************************************************************************)
EXTENDS Integers, Sequences, FiniteSets, FiniteSetsExt, Rat, Grid

MetricNames == {"DSC", "IOU", "ASSD", "RVD", "clDSC"}
Decreasing(m) == m \in {"ASSD", "RVD"}

Card(S) == Cardinality(S)

DiceSets(X, Y) == Norm(<<2 * Card(X \cap Y), Card(X) + Card(Y)>>)      \* defined iff |X|+|Y| > 0
IoUSets(X, Y)  == Norm(<<Card(X \cap Y), Card(X \cup Y)>>)             \* defined iff X u Y # {}
RVDSets(P, R)  == Norm(<<Card(P) - Card(R), Card(R)>>)                 \* defined iff R # {}
DiceFromIoU(i) == Div(Mul(<<2, 1>>, i), Add(One, i))

Exact(q) == [lo |-> q, hi |-> q]

(***************************************************************************)
(* ASSD.  For every border voxel of A the squared distance to the nearest  *)
(* border voxel of B, and vice versa.                                      *)
(***************************************************************************)
SqDistMap(shape, A, B) ==     \* A, B non-empty voxel sets
    LET ba == Border(shape, A)  bb == Border(shape, B)
    IN [v \in ba |-> MinSqDist(shape, v, bb)]

SumLo(f) == FoldSet(LAMBDA v, acc : acc + SqrtMilliLo(f[v]), 0, DOMAIN f)
SumHi(f) == FoldSet(LAMBDA v, acc : acc + SqrtMilliHi(f[v]), 0, DOMAIN f)

\* the two bags of squared distances, as functions  sqdist |-> multiplicity
BagOf(f) == LET vals == {f[v] : v \in DOMAIN f} IN
            [d \in vals |-> Cardinality({v \in DOMAIN f : f[v] = d})]

\* integer interval [lo, hi] that provably contains 1000 * ASSD(X, Y)
ASSDMilli(shape, X, Y) ==
    LET f   == SqDistMap(shape, X, Y)
        g   == SqDistMap(shape, Y, X)
        nA  == Cardinality(DOMAIN f)
        nB  == Cardinality(DOMAIN g)
        den == 2 * nA * nB
        nlo == SumLo(f) * nB + SumLo(g) * nA
        nhi == SumHi(f) * nB + SumHi(g) * nA
    IN <<nlo \div den, (nhi + den - 1) \div den>>

ASSDScore(shape, X, Y) == LET iv == ASSDMilli(shape, X, Y) IN [lo |-> <<iv[1], 1000>>, hi |-> <<iv[2], 1000>>]

\* Long-range variant (arrays with an axis of more than 46340 voxels): for every border voxel the
\* squared distance to a nearest border voxel of the other set as a pair (Grid.SqBig), bounded for
\* the milli interval by the max-norm and the 1-norm of the same difference vector.
SqDistMapBig(shape, A, B) ==
    LET ba == Border(shape, A)  bb == Border(shape, B)
    IN [v \in ba |-> LET t == NearestBig(shape, v, bb) IN
                     [sq |-> SqDistBig(shape, v, t), lo |-> Linf(shape, v, t), hi |-> L1(shape, v, t)]]
ASSDMilliBig(shape, X, Y) ==
    LET f   == SqDistMapBig(shape, X, Y)
        g   == SqDistMapBig(shape, Y, X)
        nA  == Cardinality(DOMAIN f)
        nB  == Cardinality(DOMAIN g)
        slo(h) == FoldSet(LAMBDA v, acc : acc + h[v].lo, 0, DOMAIN h)
        shi(h) == FoldSet(LAMBDA v, acc : acc + h[v].hi, 0, DOMAIN h)
    IN <<((1000 * slo(f)) \div nA + (1000 * slo(g)) \div nB) \div 2,
         ((1000 * shi(f) + nA - 1) \div nA + (1000 * shi(g) + nB - 1) \div nB + 1) \div 2>>

\* exactly zero iff both bags are all-zero, i.e. the borders coincide
ASSDIsZero(shape, X, Y) == Border(shape, X) = Border(shape, Y)

(***************************************************************************)
(* clDice: harmonic mean of the two skeleton coverage fractions; the       *)
(* skeletons are inputs (skimage's skeletonize is trusted, DESIGN 10).     *)
(***************************************************************************)
ClDice(R, P, skelR, skelP) ==
    LET tprec == <<Card(P \cap skelR), Card(skelR)>>
        tsens == <<Card(R \cap skelP), Card(skelP)>>
    IN Div(Mul(<<2, 1>>, Mul(tprec, tsens)), Add(tprec, tsens))

(***************************************************************************)
(* Score of metric m between voxel sets R (reference) and P (prediction).  *)
(***************************************************************************)
Score(m, shape, R, P) ==
    CASE m = "IOU"  -> Exact(IoUSets(R, P))
      [] m = "DSC"  -> Exact(DiceSets(R, P))
      [] m = "RVD"  -> Exact(RVDSets(P, R))
      [] m = "ASSD" -> ASSDScore(shape, R, P)

\* threshold tests (thr is a rational); equality beats
DefBeats(m, s, thr)    == IF Decreasing(m) THEN Leq(s.hi, thr) ELSE Leq(thr, s.lo)
DefNotBeats(m, s, thr) == IF Decreasing(m) THEN Less(thr, s.lo) ELSE Less(s.hi, thr)
MayBeat(m, s, thr)     == ~DefNotBeats(m, s, thr)
MayNotBeat(m, s, thr)  == ~DefBeats(m, s, thr)

\* a strictly better than b, direction-aware
DefBetter(m, a, b)    == IF Decreasing(m) THEN Less(a.hi, b.lo) ELSE Less(b.hi, a.lo)
DefNotBetter(m, a, b) == IF Decreasing(m) THEN Leq(b.hi, a.lo) ELSE Leq(a.hi, b.lo)
MayBeBetter(m, a, b)    == ~DefNotBetter(m, a, b)
MayNotBeBetter(m, a, b) == ~DefBetter(m, a, b)

(***************************************************************************)
(* Theorems about the metric operators, checked by TLC over all mask pairs *)
(* of small grids (MC_Metrics).                                            *)
(***************************************************************************)
MetricLaws(shape, X, Y) ==
    /\ (X # {} \/ Y # {}) =>
          /\ DiceSets(X, Y) = DiceSets(Y, X)
          /\ IoUSets(X, Y) = IoUSets(Y, X)
          /\ DiceSets(X, Y) = DiceFromIoU(IoUSets(X, Y))
          /\ Leq(Zero, IoUSets(X, Y)) /\ Leq(IoUSets(X, Y), One)
          /\ Leq(Zero, DiceSets(X, Y)) /\ Leq(DiceSets(X, Y), One)
          /\ Leq(IoUSets(X, Y), DiceSets(X, Y))
          /\ (IoUSets(X, Y) = One) <=> (X = Y)
          /\ (DiceSets(X, Y) = One) <=> (X = Y)
    /\ (X # {} /\ Y # {}) =>
          LET a == ASSDMilli(shape, X, Y)  b == ASSDMilli(shape, Y, X) IN
          /\ a = b
          /\ a[1] >= 0 /\ a[1] <= a[2]
          /\ (a[2] = 0) <=> ASSDIsZero(shape, X, Y)
          /\ ASSDIsZero(shape, X, Y) => a[1] = 0
=============================================================================
