CONSTANT Aggs <- OneAgg
CONSTANT Calls <- CallsTwo
CONSTANT InitOut <- InitHeader
CONSTANT MaxCrashes = 2
CONSTANT MaxSessions = 3
CONSTANT NormalExit = TRUE
CONSTANT MaxWorkerKills = 0
CONSTANT HeaderOnEmpty = TRUE
CONSTANT OwnBuffer = TRUE
CONSTANT HeaderNoClaim = TRUE
CONSTANT SplitWrites = FALSE
CONSTANT StatWrongLock = FALSE
SPECIFICATION Spec
VIEW view
INVARIANT NoDupRows
INVARIANT HeaderFirstOnce
INVARIANT RowsAreSubjects
INVARIANT SnapOnlyComplete
INVARIANT LocksConsistent
INVARIANT ExactlyOnePerSubject
INVARIANT NoCallFailed
INVARIANT SiblingsIndependent
PROPERTY RowsAppendOnly

