CONSTANT Aggs <- OneAgg
CONSTANT Calls <- CallsTwo
CONSTANT InitOut <- InitAbsent
CONSTANT MaxCrashes = 1
CONSTANT MaxSessions = 2
CONSTANT NormalExit = TRUE
CONSTANT MaxWorkerKills = 0
CONSTANT HeaderOnEmpty = FALSE
CONSTANT OwnBuffer = TRUE
CONSTANT HeaderNoClaim = TRUE
CONSTANT SplitWrites = FALSE
CONSTANT StatWrongLock = FALSE
SPECIFICATION Spec
VIEW view
INVARIANT NoDupRows
INVARIANT HeaderFirstOnce
INVARIANT RowsAreSubjects
INVARIANT SnapOnlyComplete
INVARIANT LocksConsistent
INVARIANT ExactlyOnePerSubject
INVARIANT NoCallFailed
INVARIANT SiblingsIndependent
PROPERTY RowsAppendOnly

