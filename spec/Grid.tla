------------------------------- MODULE Grid -------------------------------
(***************************************************************************)
(* Regular voxel grids of dimension 1..3.  A grid is given by its shape    *)
(* <<n1, .., nD>>; voxels are the indices 1..N in C order (last axis       *)
(* fastest), exactly the order of numpy's ravel(), which is how the        *)
(* harness projects arrays.  A label map is a sequence of length N.        *)
(***************************************************************************)
EXTENDS Integers, Sequences, FiniteSets, FiniteSetsExt, Rat

\* smallest / largest element of a non-empty set of integers, in one pass
MinInt(S) == FoldSet(LAMBDA x, acc : IF x < acc THEN x ELSE acc, CHOOSE y \in S : TRUE, S)
MaxInt(S) == FoldSet(LAMBDA x, acc : IF x > acc THEN x ELSE acc, CHOOSE y \in S : TRUE, S)
RECURSIVE Prod(_)
Prod(s) == IF s = <<>> THEN 1 ELSE Head(s) * Prod(Tail(s))

NVox(shape) == Prod(shape)
Vox(shape)  == 1..NVox(shape)
Dim(shape)  == Len(shape)

\* stride of axis a = product of the extents of the later axes
Stride(shape, a) == Prod(SubSeq(shape, a + 1, Len(shape)))

\* coordinate (0-based) of voxel v along axis a
Coord(shape, v, a) == ((v - 1) \div Stride(shape, a)) % shape[a]

CoordVec(shape, v) == [a \in 1..Len(shape) |-> Coord(shape, v, a)]

VoxOf(shape, c) ==   \* inverse of CoordVec
    1 + SumInts([a \in 1..Len(shape) |-> c[a] * Stride(shape, a)])

L1(shape, u, v)   == SumInts([a \in 1..Len(shape) |-> Abs(Coord(shape, u, a) - Coord(shape, v, a))])
RECURSIVE MaxSeq(_)
MaxSeq(s) == IF Len(s) = 1 THEN s[1] ELSE Max2(Head(s), MaxSeq(Tail(s)))
Linf(shape, u, v) == MaxSeq([a \in 1..Len(shape) |-> Abs(Coord(shape, u, a) - Coord(shape, v, a))])
SqDist(shape, u, v) == SumInts([a \in 1..Len(shape) |->
                          (Coord(shape, u, a) - Coord(shape, v, a)) * (Coord(shape, u, a) - Coord(shape, v, a))])

\* neighbourhood relations.  "face" = 2/4/6-connectivity, "full" = 2/8/26.
FaceNbr(shape, u, v) == L1(shape, u, v) = 1
FullNbr(shape, u, v) == Linf(shape, u, v) = 1
Nbr(kind, shape, u, v) == IF kind = "face" THEN FaceNbr(shape, u, v) ELSE FullNbr(shape, u, v)

\* the neighbours of v, generated from coordinate offsets (linear in the neighbourhood size, not in
\* the grid size)
Offsets(kind, d) ==
    IF kind = "face"
    THEN {[a \in 1..d |-> IF a = b THEN s ELSE 0] : b \in 1..d, s \in {-1, 1}}
    ELSE [1..d -> {-1, 0, 1}] \ {[a \in 1..d |-> 0]}
NbrsOf(kind, shape, v) ==
    LET d == Len(shape)
        c == CoordVec(shape, v)
        ok(o) == \A a \in 1..d : c[a] + o[a] >= 0 /\ c[a] + o[a] < shape[a]
    IN {VoxOf(shape, [a \in 1..d |-> c[a] + o[a]]) : o \in {x \in Offsets(kind, d) : ok(x)}}

(***************************************************************************)
(* Connected components of a voxel set S under a neighbourhood, by the     *)
(* obvious fixpoint; Components(S) is the partition of S.                  *)
(***************************************************************************)
RECURSIVE Grow(_, _, _, _, _)
Grow(kind, shape, S, comp, frontier) ==
    IF frontier = {} THEN comp
    ELSE LET new == (UNION {NbrsOf(kind, shape, f) : f \in frontier}) \cap (S \ comp)
         IN Grow(kind, shape, S, comp \cup new, new)

ComponentOf(kind, shape, S, v) == Grow(kind, shape, S, {v}, {v})

RECURSIVE Components(_, _, _)
Components(kind, shape, S) ==
    IF S = {} THEN {}
    ELSE LET v == MinInt(S)
             c == ComponentOf(kind, shape, S, v)
         IN {c} \cup Components(kind, shape, S \ c)

IsConnected(kind, shape, S) == S # {} /\ LET v == CHOOSE x \in S : TRUE IN ComponentOf(kind, shape, S, v) = S

\* two disjoint voxel sets touch if some voxel of one neighbours a voxel of the other
Touch(kind, shape, A, B) == \E a \in A : NbrsOf(kind, shape, a) \cap B # {}

(***************************************************************************)
(* Label maps.                                                             *)
(***************************************************************************)
Sel(arr, l)       == {v \in 1..Len(arr) : arr[v] = l}
SelSet(arr, L)    == {v \in 1..Len(arr) : arr[v] \in L}
Fg(arr)           == {v \in 1..Len(arr) : arr[v] # 0}
Labels(arr)       == {arr[v] : v \in 1..Len(arr)} \ {0}
PartitionOf(arr)  == {Sel(arr, l) : l \in Labels(arr)}
RestrictTo(arr, L) == [v \in 1..Len(arr) |-> IF arr[v] \in L THEN arr[v] ELSE 0]
Binarize(arr)     == [v \in 1..Len(arr) |-> IF arr[v] # 0 THEN 1 ELSE 0]

(***************************************************************************)
(* Border of a voxel set: foreground voxels with a background or           *)
(* out-of-array face neighbour.                                            *)
(***************************************************************************)
OnArrayEdge(shape, v) == \E a \in 1..Len(shape) : Coord(shape, v, a) = 0 \/ Coord(shape, v, a) = shape[a] - 1
Border(shape, S) == {v \in S : OnArrayEdge(shape, v) \/ ~(NbrsOf("face", shape, v) \subseteq S)}

\* minimum squared distance from v to a non-empty voxel set T
MinSqDist(shape, v, T) ==
    LET ds == {SqDist(shape, v, t) : t \in T} IN CHOOSE d \in ds : \A e \in ds : d <= e

(***************************************************************************)
(* Long-range distances.  Squared distances of 46341 voxels and more do    *)
(* not fit TLC's 32-bit integers; the value q * 2^20 + r is carried as the *)
(* pair <<q, r>> with 0 <= r < 2^20 (coordinate differences below 2^20).   *)
(***************************************************************************)
K20 == 1048576
SqBig(x) ==
    LET a  == x \div 1024
        b  == x % 1024
        m  == 2 * a * b
        r0 == (m % 1024) * 1024 + b * b
    IN <<a * a + m \div 1024 + r0 \div K20, r0 % K20>>
AddBig(p, q)  == LET r == p[2] + q[2] IN <<p[1] + q[1] + r \div K20, r % K20>>
LessBig(p, q) == p[1] < q[1] \/ (p[1] = q[1] /\ p[2] < q[2])
RECURSIVE SumBig(_)
SumBig(s) == IF s = <<>> THEN <<0, 0>> ELSE AddBig(Head(s), SumBig(Tail(s)))
SqDistBig(shape, u, v) ==
    SumBig([a \in 1..Len(shape) |-> SqBig(Abs(Coord(shape, u, a) - Coord(shape, v, a)))])
\* a nearest voxel of the non-empty set T
NearestBig(shape, v, T) ==
    CHOOSE t \in T : \A e \in T : ~LessBig(SqDistBig(shape, v, e), SqDistBig(shape, v, t))

(***************************************************************************)
(* Geometric transformations of label maps (C10).                          *)
(***************************************************************************)
\* embed arr (shape s) into a zero array of shape t at offset off (0-based, per axis)
Pad(s, arr, t, off) ==
    [w \in 1..NVox(t) |->
        LET c == [a \in 1..Len(t) |-> Coord(t, w, a) - off[a]] IN
        IF \A a \in 1..Len(t) : c[a] >= 0 /\ c[a] < s[a] THEN arr[VoxOf(s, c)] ELSE 0]

Flip(s, arr, ax) ==
    [w \in 1..NVox(s) |->
        arr[VoxOf(s, [a \in 1..Len(s) |-> IF a = ax THEN s[a] - 1 - Coord(s, w, a) ELSE Coord(s, w, a)])]]

\* perm is a permutation of 1..D: new axis a is old axis perm[a]
PermShape(s, perm) == [a \in 1..Len(s) |-> s[perm[a]]]
Permute(s, arr, perm) ==
    LET t == PermShape(s, perm) IN
    [w \in 1..NVox(t) |->
        LET cold == [b \in 1..Len(s) |-> Coord(t, w, CHOOSE a \in 1..Len(s) : perm[a] = b)] IN
        arr[VoxOf(s, cold)]]
=============================================================================
