----------------------------- MODULE MC_Approx -----------------------------
(* Model part of C05: over ALL semantic maps of a small grid, the fixpoint   *)
(* components satisfy the declarative connected-component property for both  *)
(* backends, the reported count is the number of parts, and the declarative  *)
(* property discriminates: a labelling by the other backend's partition is   *)
(* rejected whenever the two partitions differ.                              *)
EXTENDS PipelineOps, TLC
CONSTANTS Shape, MaxLabel
VARIABLES sem, l
S5 == <<5>>
S6 == <<6>>
S22 == <<2, 2>>
S23 == <<2, 3>>
S33 == <<3, 3>>
S222 == <<2, 2, 2>>
Init == sem \in [1..NVox(Shape) -> 0..MaxLabel] /\ l = 0
Next == l = 0 /\ l' = 1 /\ UNCHANGED sem
Backends == {"cc3d", "scipy"}
Lab(b) == LabelBy(InstParts(b, Shape, sem), NVox(Shape))
ComponentsAreCC == l = 1 => \A b \in Backends : IsCCLabelling(b, Shape, sem, Lab(b), Cardinality(InstParts(b, Shape, sem)))
Discriminates == l = 1 => \A b, c \in Backends :
                    InstParts(b, Shape, sem) # InstParts(c, Shape, sem) =>
                        ~IsCCLabelling(b, Shape, sem, Lab(c), Cardinality(InstParts(c, Shape, sem)))
IsPartition == l = 1 => \A b \in Backends : /\ UNION InstParts(b, Shape, sem) = Fg(sem)
                                            /\ \A x, y \in InstParts(b, Shape, sem) : x # y => x \cap y = {}
DefaultChoice == /\ ResolveBackend("default", <<4>>) = "scipy" /\ ResolveBackend("default", <<3, 3>>) = "scipy"
                 /\ ResolveBackend("default", <<2, 2, 2>>) = "cc3d" /\ ResolveBackend("cc3d", <<4>>) = "cc3d"
                 /\ ResolveBackend("scipy", <<2, 2, 2>>) = "scipy"
=============================================================================
