---------------------------- MODULE Trace_Groups ----------------------------
(* Trace validation of LabelGroup / SegmentationClassGroups construction and use. *)
(*   kind "group":  labels (sequence), single, merge, out ("ok"|"raise"),          *)
(*                  rlabels (the labels the object reports), arr, ext (extracted)  *)
(*   kind "groups": entries <<[name, labels, single, merge]>> (names lower-cased   *)
(*                  by the harness), keys (reported names), glabels[name-index],    *)
(*                  arr, defined (has_defined_labels_for)                          *)
EXTENDS Groups, TLC, Json, IOUtils
T == ndJsonDeserialize(IOEnv.TRACE_FILE)
VARIABLES tid, l
Init == tid \in 1..Len(T) /\ l = 0
Next == l = 0 /\ l' = 1 /\ UNCHANGED tid
Spec == Init /\ [][Next]_<<tid, l>>
R == T[tid]
Range(s) == {s[i] : i \in 1..Len(s)}
G == l = 1 /\ R.kind = "group"
GS == l = 1 /\ R.kind = "groups"
T_GroupValidity == G => ((R.out = "ok") <=> GroupOK(Range(R.labels), R.single))
T_GroupLabels   == (G /\ R.out = "ok") => Range(R.rlabels) = Range(R.labels) /\ Len(R.rlabels) = Cardinality(Range(R.labels))
T_GroupExtract  == (G /\ R.out = "ok") => R.ext = Extract([labels |-> Range(R.labels), merge |-> R.merge], R.arr)
Ent == [i \in 1..Len(R.entries) |-> [name |-> R.entries[i].name, labels |-> Range(R.entries[i].labels), single |-> R.entries[i].single, merge |-> R.entries[i].merge]]
T_GroupsKeys    == (GS /\ R.out = "ok") => Range(R.keys) = Names(Ent) /\ Len(R.keys) = Cardinality(Names(Ent))
T_GroupsContent == (GS /\ R.out = "ok") => \A k \in 1..Len(R.keys) :
                        LET g == MakeGroups(Ent)[R.keys[k]] IN Range(R.glabels[k]) = g.labels /\ R.gsingle[k] = g.single
T_GroupsDefined == (GS /\ R.out = "ok") => (R.defined <=> Defined(MakeGroups(Ent), R.arr))
=============================================================================
