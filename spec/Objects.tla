------------------------------ MODULE Objects ------------------------------
(***************************************************************************)
(* panoptica's long-lived objects as a small heap (C15): evaluators with   *)
(* their configuration and their lazily cached list of advertised metric   *)
(* keys (a list OBJECT with identity, handed out by reference),            *)
(* aggregators holding a list of column keys, and the history of evaluate  *)
(* calls.  Evaluation itself is a pure function of (configuration, input): *)
(* the result of a call is the abstract value Res(cfg, inp).               *)
(*                                                                         *)
(* Actions: NewEvaluator(c, sgt, src), Evaluate(e, inp, opts),             *)
(* QueryKeys(e), NewAggregator(e, logTimes), Save(e).                      *)
(*                                                                         *)
(* Argument objects: the list of instance metrics an evaluator is built    *)
(* with is an OBJECT of the caller (or the constructor's default-argument   *)
(* object) that the evaluator keeps by reference: src says which one -     *)
(* "fresh" (a new list), "shared" (the caller's one list for that          *)
(* configuration, passed to every such constructor), "default" (argument   *)
(* omitted).  No action may ever change the content of such a list         *)
(* (ArgsUntouched), otherwise evaluators influence each other.             *)
(* Rejected configurations (a decision metric outside the instance         *)
(* metrics) construct fine and refuse every later use.                     *)
(*                                                                         *)
(* Design constants (TRUE = as shipped before the fix: commits):           *)
(*   AliasKeys      the aggregator appends "computation_time" to the very  *)
(*                  list object the evaluator caches                       *)
(*   PerCallTimes   evaluate(save_group_times=True) on an evaluator built  *)
(*                  without it fails                                       *)
(*   MutateArgs     (a hazard, never shipped) the constructor completes    *)
(*                  the metric list it was handed with the decision metric *)
(***************************************************************************)
EXTENDS Integers, Sequences, FiniteSets, TLC

CONSTANTS Cfgs, Inputs, MaxEvaluators, MaxSteps, AliasKeys, PerCallTimes,
          DefaultCfgs,    \* configurations whose instance metrics are the constructor's default
          RejectedCfgs,   \* configurations whose decision metric is not an instance metric
          MutateArgs

VARIABLES evs,      \* sequence of [cfg, sgt, keysObj, ml]  (keysObj = 0: not computed yet; ml: metric-list object)
          lists,    \* the heap of key-list objects: sequence of sequences of keys
          mlists,   \* the heap of metric-list objects: sequence of [owner, content]
          aggs,     \* sequence of [ev, cols] (cols = index of a list object)
          hist,     \* sequence of [cfg, inp, res]
          last,     \* the action just taken (for replay into the real code)
          steps
vars == <<evs, lists, mlists, aggs, hist, last, steps>>

Sources == {"fresh", "shared", "default"}
\* the metric list a caller writes down for configuration c (rejected configurations: the default list)
MetricsOf(c) == IF c \in DefaultCfgs THEN <<"default-metrics">> ELSE <<"metrics-" \o c>>
\* keys and results are functions of the configuration and of the CONTENT of the metric list
KeysFrom(c, content) == <<"tp", "sq_" \o c>> \o content
BaseKeys(c) == KeysFrom(c, MetricsOf(c))
ResFrom(c, content, i) == <<"res", c, content, i>>
Res(c, i) == ResFrom(c, MetricsOf(c), i)
Opts == [result_all : BOOLEAN, sgt : BOOLEAN, log : BOOLEAN, verbose : BOOLEAN, pool : {"serial", "real"}]

\* object 1 of the metric-list heap is the constructor's default argument
Init == evs = <<>> /\ lists = <<>> /\ aggs = <<>> /\ hist = <<>> /\ steps = 0
        /\ mlists = <<[owner |-> "default", content |-> <<"default-metrics">>]>>
        /\ last = [act |-> "init", e |-> 0, c |-> "-", inp |-> "-", sgt |-> FALSE, ra |-> TRUE, log |-> FALSE, vb |-> FALSE, pool |-> "serial", src |-> "-"]

Tick == steps < MaxSteps /\ steps' = steps + 1
ActS(a, e, c, i, o, src) == last' = [act |-> a, e |-> e, c |-> c, inp |-> i, sgt |-> o.sgt, ra |-> o.result_all, log |-> o.log, vb |-> o.verbose, pool |-> o.pool, src |-> src]
Act(a, e, c, i, o) == ActS(a, e, c, i, o, "-")
NoOpts == [result_all |-> TRUE, sgt |-> FALSE, log |-> FALSE, verbose |-> FALSE, pool |-> "serial"]

SharedOf(c) == {k \in 1..Len(mlists) : mlists[k].owner = c}
NewEvaluator(c, sgt, src) ==
    /\ Tick /\ Len(evs) < MaxEvaluators
    /\ (src = "default") => c \in DefaultCfgs
    /\ LET reuse == (src = "default") \/ (src = "shared" /\ SharedOf(c) # {})
           ml    == IF src = "default" THEN 1
                    ELSE IF reuse THEN CHOOSE k \in SharedOf(c) : TRUE ELSE Len(mlists) + 1
           heap  == IF reuse THEN mlists
                    ELSE Append(mlists, [owner |-> IF src = "shared" THEN c ELSE "-", content |-> MetricsOf(c)])
       IN /\ mlists' = IF MutateArgs /\ c \in RejectedCfgs
                       THEN [heap EXCEPT ![ml].content = Append(@, "decision-metric")] ELSE heap
          /\ evs' = Append(evs, [cfg |-> c, sgt |-> sgt, keysObj |-> 0, ml |-> ml])
    /\ ActS("new_evaluator", Len(evs) + 1, c, "-", [NoOpts EXCEPT !.sgt = sgt], src)
    /\ UNCHANGED <<lists, aggs, hist>>

Usable(e) == evs[e].cfg \notin RejectedCfgs
Content(e) == mlists[evs[e].ml].content
\* a rejected configuration refuses every use; nothing changes
Refused(e, a, i, o) ==
    /\ Tick /\ e \in 1..Len(evs) /\ ~Usable(e)
    /\ Act(a, e, evs[e].cfg, i, o)
    /\ UNCHANGED <<evs, lists, mlists, aggs, hist>>

\* the lazy property: computed once, then the same list object every time
EnsureKeys(e) ==
    IF evs[e].keysObj # 0 THEN /\ evs' = evs /\ lists' = lists
    ELSE /\ lists' = Append(lists, KeysFrom(evs[e].cfg, Content(e)))
         /\ evs' = [evs EXCEPT ![e].keysObj = Len(lists) + 1]

QueryKeys(e) ==
    /\ Tick /\ e \in 1..Len(evs) /\ Usable(e)
    /\ EnsureKeys(e)
    /\ Act("query_keys", e, evs[e].cfg, "-", NoOpts)
    /\ UNCHANGED <<aggs, hist, mlists>>

Evaluate(e, i, o) ==
    /\ Tick /\ e \in 1..Len(evs) /\ Usable(e)
    /\ hist' = Append(hist, [cfg |-> evs[e].cfg, inp |-> i,
                             res |-> IF PerCallTimes /\ o.sgt /\ ~evs[e].sgt THEN <<"raise">> ELSE ResFrom(evs[e].cfg, Content(e), i)])
    /\ Act("evaluate", e, evs[e].cfg, i, o)
    /\ UNCHANGED <<evs, lists, aggs, mlists>>

NewAggregator(e, logTimes) ==
    /\ Tick /\ e \in 1..Len(evs) /\ Usable(e)
    /\ LET obj  == IF evs[e].keysObj # 0 THEN evs[e].keysObj ELSE Len(lists) + 1
           base == IF evs[e].keysObj # 0 THEN lists ELSE Append(lists, KeysFrom(evs[e].cfg, Content(e)))
           evs1 == [evs EXCEPT ![e].keysObj = obj]
       IN IF AliasKeys
          THEN /\ lists' = (IF logTimes THEN [base EXCEPT ![obj] = Append(base[obj], "computation_time")] ELSE base)
               /\ aggs' = Append(aggs, [ev |-> e, cols |-> obj])
               /\ evs' = evs1
          ELSE /\ lists' = Append(base, IF logTimes THEN Append(base[obj], "computation_time") ELSE base[obj])
               /\ aggs' = Append(aggs, [ev |-> e, cols |-> Len(base) + 1])
               /\ evs' = evs1
    /\ Act("new_aggregator", e, evs[e].cfg, "-", [NoOpts EXCEPT !.log = logTimes])
    /\ UNCHANGED <<hist, mlists>>

Save(e) ==
    /\ Tick /\ e \in 1..Len(evs)
    /\ Act("save", e, evs[e].cfg, "-", NoOpts)
    /\ UNCHANGED <<evs, lists, aggs, hist, mlists>>

Next == \/ \E c \in Cfgs, s \in BOOLEAN, src \in Sources : NewEvaluator(c, s, src)
        \/ \E e \in 1..MaxEvaluators : QueryKeys(e) \/ Save(e) \/ Refused(e, "query_keys", "-", NoOpts)
        \/ \E e \in 1..MaxEvaluators, i \in Inputs, o \in Opts : Evaluate(e, i, o) \/ Refused(e, "evaluate", i, o)
        \/ \E e \in 1..MaxEvaluators, lt \in BOOLEAN : NewAggregator(e, lt) \/ Refused(e, "new_aggregator", "-", [NoOpts EXCEPT !.log = lt])
Spec == Init /\ [][Next]_vars

Keys(e) == lists[evs[e].keysObj]

\* the reported metrics depend on configuration and input only
Deterministic == \A a, b \in 1..Len(hist) : (hist[a].cfg = hist[b].cfg /\ hist[a].inp = hist[b].inp) => hist[a].res = hist[b].res
NoCallRaises  == \A a \in 1..Len(hist) : hist[a].res # <<"raise">>
\* an evaluator's advertised keys do not change through use (of anything)
KeysStable == [][\A e \in 1..Len(evs) : evs[e].keysObj # 0 => (evs'[e].keysObj = evs[e].keysObj /\ lists'[evs[e].keysObj] = Keys(e))]_vars
KeysAreBase == \A e \in 1..Len(evs) : evs[e].keysObj # 0 => Keys(e) = BaseKeys(evs[e].cfg)
\* the content of a metric-list object never changes: neither the caller's lists nor the default argument
ArgsUntouched == [][\A k \in 1..Len(mlists) : mlists'[k] = mlists[k]]_vars
ArgsAreNominal == \A e \in 1..Len(evs) : Content(e) = MetricsOf(evs[e].cfg)
=============================================================================
