------------------------------ MODULE Objects ------------------------------
(***************************************************************************)
(* panoptica's long-lived objects as a small heap (C15): evaluators with   *)
(* their configuration and their lazily cached list of advertised metric   *)
(* keys (a list OBJECT with identity, handed out by reference),            *)
(* aggregators holding a list of column keys, and the history of evaluate  *)
(* calls.  Evaluation itself is a pure function of (configuration, input): *)
(* the result of a call is the abstract value Res(cfg, inp).               *)
(*                                                                         *)
(* Actions: NewEvaluator(c, sgt), Evaluate(e, inp, opts), QueryKeys(e),    *)
(* NewAggregator(e, logTimes), Save(e).                                    *)
(*                                                                         *)
(* Design constants (TRUE = as shipped before the fix: commits):           *)
(*   AliasKeys      the aggregator appends "computation_time" to the very  *)
(*                  list object the evaluator caches                       *)
(*   PerCallTimes   evaluate(save_group_times=True) on an evaluator built  *)
(*                  without it fails                                       *)
(***************************************************************************)
EXTENDS Integers, Sequences, FiniteSets, TLC

CONSTANTS Cfgs, Inputs, MaxEvaluators, MaxSteps, AliasKeys, PerCallTimes

VARIABLES evs,      \* sequence of [cfg, sgt, keysObj]  (keysObj = 0: not computed yet)
          lists,    \* the heap of list objects: sequence of sequences of keys
          aggs,     \* sequence of [ev, cols] (cols = index of a list object)
          hist,     \* sequence of [cfg, inp, res]
          last,     \* the action just taken (for replay into the real code)
          steps
vars == <<evs, lists, aggs, hist, last, steps>>

BaseKeys(c) == <<"tp", "sq_" \o c>>
Res(c, i) == <<"res", c, i>>
Opts == [result_all : BOOLEAN, sgt : BOOLEAN, log : BOOLEAN, verbose : BOOLEAN, pool : {"serial", "real"}]

Init == evs = <<>> /\ lists = <<>> /\ aggs = <<>> /\ hist = <<>> /\ steps = 0
        /\ last = [act |-> "init", e |-> 0, c |-> "-", inp |-> "-", sgt |-> FALSE, ra |-> TRUE, log |-> FALSE, vb |-> FALSE, pool |-> "serial"]

Tick == steps < MaxSteps /\ steps' = steps + 1
Act(a, e, c, i, o) == last' = [act |-> a, e |-> e, c |-> c, inp |-> i, sgt |-> o.sgt, ra |-> o.result_all, log |-> o.log, vb |-> o.verbose, pool |-> o.pool]
NoOpts == [result_all |-> TRUE, sgt |-> FALSE, log |-> FALSE, verbose |-> FALSE, pool |-> "serial"]

NewEvaluator(c, sgt) ==
    /\ Tick /\ Len(evs) < MaxEvaluators
    /\ evs' = Append(evs, [cfg |-> c, sgt |-> sgt, keysObj |-> 0])
    /\ Act("new_evaluator", Len(evs) + 1, c, "-", [NoOpts EXCEPT !.sgt = sgt])
    /\ UNCHANGED <<lists, aggs, hist>>

\* the lazy property: computed once, then the same list object every time
EnsureKeys(e) ==
    IF evs[e].keysObj # 0 THEN /\ evs' = evs /\ lists' = lists
    ELSE /\ lists' = Append(lists, BaseKeys(evs[e].cfg))
         /\ evs' = [evs EXCEPT ![e].keysObj = Len(lists) + 1]

QueryKeys(e) ==
    /\ Tick /\ e \in 1..Len(evs)
    /\ EnsureKeys(e)
    /\ Act("query_keys", e, evs[e].cfg, "-", NoOpts)
    /\ UNCHANGED <<aggs, hist>>

Evaluate(e, i, o) ==
    /\ Tick /\ e \in 1..Len(evs)
    /\ hist' = Append(hist, [cfg |-> evs[e].cfg, inp |-> i,
                             res |-> IF PerCallTimes /\ o.sgt /\ ~evs[e].sgt THEN <<"raise">> ELSE Res(evs[e].cfg, i)])
    /\ Act("evaluate", e, evs[e].cfg, i, o)
    /\ UNCHANGED <<evs, lists, aggs>>

NewAggregator(e, logTimes) ==
    /\ Tick /\ e \in 1..Len(evs)
    /\ LET obj  == IF evs[e].keysObj # 0 THEN evs[e].keysObj ELSE Len(lists) + 1
           base == IF evs[e].keysObj # 0 THEN lists ELSE Append(lists, BaseKeys(evs[e].cfg))
           evs1 == [evs EXCEPT ![e].keysObj = obj]
       IN IF AliasKeys
          THEN /\ lists' = (IF logTimes THEN [base EXCEPT ![obj] = Append(base[obj], "computation_time")] ELSE base)
               /\ aggs' = Append(aggs, [ev |-> e, cols |-> obj])
               /\ evs' = evs1
          ELSE /\ lists' = Append(base, IF logTimes THEN Append(base[obj], "computation_time") ELSE base[obj])
               /\ aggs' = Append(aggs, [ev |-> e, cols |-> Len(base) + 1])
               /\ evs' = evs1
    /\ Act("new_aggregator", e, evs[e].cfg, "-", [NoOpts EXCEPT !.log = logTimes])
    /\ UNCHANGED hist

Save(e) ==
    /\ Tick /\ e \in 1..Len(evs)
    /\ Act("save", e, evs[e].cfg, "-", NoOpts)
    /\ UNCHANGED <<evs, lists, aggs, hist>>

Next == \/ \E c \in Cfgs, s \in BOOLEAN : NewEvaluator(c, s)
        \/ \E e \in 1..MaxEvaluators : QueryKeys(e) \/ Save(e)
        \/ \E e \in 1..MaxEvaluators, i \in Inputs, o \in Opts : Evaluate(e, i, o)
        \/ \E e \in 1..MaxEvaluators, lt \in BOOLEAN : NewAggregator(e, lt)
Spec == Init /\ [][Next]_vars

Keys(e) == lists[evs[e].keysObj]

\* the reported metrics depend on configuration and input only
Deterministic == \A a, b \in 1..Len(hist) : (hist[a].cfg = hist[b].cfg /\ hist[a].inp = hist[b].inp) => hist[a].res = hist[b].res
NoCallRaises  == \A a \in 1..Len(hist) : hist[a].res # <<"raise">>
\* an evaluator's advertised keys do not change through use (of anything)
KeysStable == [][\A e \in 1..Len(evs) : evs[e].keysObj # 0 => (evs'[e].keysObj = evs[e].keysObj /\ lists'[evs[e].keysObj] = Keys(e))]_vars
KeysAreBase == \A e \in 1..Len(evs) : evs[e].keysObj # 0 => Keys(e) = BaseKeys(evs[e].cfg)
=============================================================================
