CONSTANT Lists <- L2
CONSTANT Globals = {}
CONSTANT NoPred = TRUE
CONSTANT NoRef = FALSE
CONSTANT TpZero = TRUE
CONSTANT SqNone = {"DSC"}
SPECIFICATION Spec
INVARIANT OrderIndependent
INVARIANT Idempotent
PROPERTY Final
CHECK_DEADLOCK FALSE
CONSTANT Probe = {"prec", "rec", "rq", "pq", "sq_dsc", "pq_dsc", "sq_assd_std", "global_bin_iou"}
