----------------------------- MODULE Trace_Match -----------------------------
(***************************************************************************)
(* Trace validation of InstanceMatchingAlgorithm.match_instances (C03,     *)
(* C04, C14).  One ndjson line per recorded call:                          *)
(*   shape, pr, rf        the unmatched pair handed to the matcher         *)
(*   matcher, mm, thr     matcher kind, matching metric, threshold <<p,q>> *)
(*   out                  "ok" | "raise"                                   *)
(*   mp, mr               the arrays of the returned MatchedInstancePair   *)
(*   chain                optional: sequence of [thr, mp] for the same     *)
(*                        input at stricter and stricter thresholds        *)
(* "Bind, then judge": the trace step binds nothing but the trace id; each *)
(* clause of the properties is a separately named invariant, so TLC's      *)
(* "Invariant T_x is violated" names the failing clause.                   *)
(***************************************************************************)
EXTENDS PipelineOps, Json, IOUtils, TLC

T == ndJsonDeserialize(IOEnv.TRACE_FILE)

\* Sc (candidate scores) and Lm (exhibited label map) are derived once per trace in the step
\* and kept as state, so that the sixteen clauses below do not recompute them.
VARIABLES tid, l, Sc, Lm
vars == <<tid, l, Sc, Lm>>

R      == T[tid]
Init == tid \in 1..Len(T) /\ l = 0 /\ Sc = <<>> /\ Lm = {}
Next == /\ l = 0 /\ l' = 1 /\ UNCHANGED tid
        /\ Sc' = ScoreMap(R.mm, R.shape, R.pr, R.rf)
        /\ Lm' = IF R.out = "ok" THEN ExhibitedLm(R.pr, R.mp, R.rf) ELSE {}
Spec == Init /\ [][Next]_vars

Go     == l = 1
Ok     == Go /\ R.out = "ok"
M2O    == R.matcher = "m2o"
Naive  == R.matcher \in {"naive", "m2o"}

\* C03 "terminates with a result for every valid input and option"
T_Terminates      == Go => R.out = "ok"

\* C04
T_RefUnchanged    == Ok => RefUnchanged(R.rf, R.mr)
T_FgPreserved     == Ok => FgPreserved(R.pr, R.mp)
T_NoSplit         == Ok => NoSplit(R.pr, R.mp)
T_FreshDistinct   == Ok => FreshDistinct(R.pr, R.mp, R.rf)
T_MatchedCarryRef == Ok => CoarsenedBy(R.pr, R.mp, R.rf, Lm)

\* C03 / C14 on the exhibited label map
T_PredFunctional  == Ok => PredFunctional(Lm)
T_RefInjective    == (Ok /\ R.matcher = "naive") => RefInjective(Lm)
T_PairsOverlap    == Ok => PairsOverlap(Lm, Sc)
T_PairsBeat       == (Ok /\ Naive) => PairsBeat(R.mm, R.thr, Lm, Sc)
T_Maximal         == (Ok /\ Naive) => Maximal(M2O, R.mm, R.thr, Lm, Sc)
T_Stable          == (Ok /\ Naive) => Stable(M2O, R.mm, R.thr, Lm, Sc)
T_SeededBySingle  == (Ok /\ R.matcher = "merge") => SeededByEligibleSingle(R.mm, R.thr, Lm, Sc)
T_FinalAtLeastSeed == (Ok /\ R.matcher = "merge") =>
                         FinalAtLeastBestSeed(R.mm, R.thr, R.shape, R.pr, R.rf, Lm, Sc)
\* the label map is one the documented best-first procedure can produce (any tie order);
\* for the merge matcher this is the clause "merged in only if strictly better"
T_LabelMapAllowed == Ok => Lm \in AllowedLabelMapsSc(R.matcher, R.mm, R.thr, R.shape, R.pr, R.rf, Sc)

\* C03 monotonicity: along a chain of stricter and stricter thresholds (same input, same
\* matcher) the set of matched pairs only shrinks.  Holds for a best-first greedy under any
\* fixed order because a stricter threshold keeps a prefix of that order.
ChainLm(i) == ExhibitedLm(R.pr, R.chain[i].mp, R.rf)
T_Monotone ==
    (Ok /\ Naive /\ Len(R.chain) > 0) =>
        /\ ChainLm(1) \subseteq Lm
        /\ \A i \in 1..(Len(R.chain) - 1) : ChainLm(i + 1) \subseteq ChainLm(i)
=============================================================================
