------------------------------ MODULE Trace_Tsv ------------------------------
(***************************************************************************)
(* Trace validation for C18: one record per aggregator run + load.         *)
(*   groups, metrics   group names and metric keys (strings as sequences   *)
(*                     of characters), in the order the evaluator reports  *)
(*   header            the header cells found in the file (after the first)*)
(*   first             the first header cell                               *)
(*   subjects          the subject names submitted, in file order          *)
(*   reported[i][j]    token of what result i reported for column j        *)
(*                     (column j = group ((j-1) div n)+1, metric ((j-1)%n)+1)*)
(*   fsubjects         subject names the loader returns                    *)
(*   loaded[gi][mi][i] token the loader returns for group gi, metric mi,   *)
(*                     subject i ("missing" for None)                      *)
(*   lgroups, lmetrics group / metric names of the loaded object           *)
(*   lines             the physical lines of the file (with their LF)      *)
(*   celltext[i][j]    the text of what result i reported for column j     *)
(*                     (Python's str of the value, empty for absent)       *)
(*   out               "ok" | "raise" (writing or loading raised)          *)
(***************************************************************************)
EXTENDS Tsv, Json, IOUtils, TLC
T == ndJsonDeserialize(IOEnv.TRACE_FILE)
VARIABLES tid, l
Init == tid \in 1..Len(T) /\ l = 0
Next == l = 0 /\ l' = 1 /\ UNCHANGED tid
Spec == Init /\ [][Next]_<<tid, l>>
R == T[tid]
Go == l = 1
Ok == Go /\ R.out = "ok"
NM == Len(R.metrics)
NG == Len(R.groups)
Range(s) == {s[i] : i \in 1..Len(s)}

T_Completes     == Go => R.out = "ok"
T_MetricsDashFree == Go => \A i \in 1..NM : NoDashIn(R.metrics[i])
T_HeaderWritten == Ok => /\ R.first = <<"s","u","b","j","e","c","t","_","n","a","m","e">>
                         /\ R.header = HeaderRow(R.groups, R.metrics)
T_HeaderParses  == Ok => \A j \in 1..Len(R.header) :
                            HasDash(R.header[j]) /\
                            ParseCell(R.header[j]) = <<R.groups[((j - 1) \div NM) + 1], R.metrics[((j - 1) % NM) + 1]>>
T_SubjectsRecovered == Ok => R.fsubjects = R.subjects
T_GroupsRecovered   == Ok => Range(R.lgroups) = Range(R.groups) /\ Range(R.lmetrics) = Range(R.metrics)
\* every reported value comes back bit-identical under the same subject, group and metric;
\* NaN / infinite / uncomputable come back as missing
T_ReadBack == Ok => \A gi \in 1..NG : \A mi \in 1..NM : \A i \in 1..Len(R.subjects) :
                       R.loaded[gi][mi][i] = Loaded(R.reported[i][(gi - 1) * NM + mi])
\* the physical lines, read with the csv dialect of the loader (Tsv.ParseRow), hold one cell per
\* column and start with the subject - however the writer chose to quote and format them
T_RowCells   == Ok => \A i \in 1..Len(R.subjects) :
                   (i + 1 <= Len(R.lines)) =>
                      LET cells == ParseRow(R.lines[i + 1]) IN
                      Len(cells) = 1 + Len(R.celltext[i]) /\ cells[1] = R.subjects[i]
\* the TEXT FORM of the lines as the shipped writer produces it: cells joined by TAB, minimal quoting
\* with doubled quotes, numbers as str(value), terminated by LF.  C18 does not prescribe it: a
\* difference here is reported as DRIFT of the model (never as a violation) by the harness.
T_HeaderText == Ok => R.lines[1] = RowText(<<R.first>> \o R.header)
T_RowText    == Ok => \A i \in 1..Len(R.subjects) : R.lines[i + 1] = RowText(<<R.subjects[i]>> \o R.celltext[i])
T_LineCount  == Ok => Len(R.lines) = Len(R.subjects) + 1
T_NoColumnShift == Ok => \A gi \in 1..NG : \A mi \in 1..NM : Len(R.loaded[gi][mi]) = Len(R.subjects)
=============================================================================
