CONSTANT Shape <- Shape23
INIT Init
NEXT Next
INVARIANT Laws
INVARIANT PadInvariant
CHECK_DEADLOCK FALSE
INVARIANT BigAgrees
