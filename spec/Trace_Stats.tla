----------------------------- MODULE Trace_Stats -----------------------------
(***************************************************************************)
(* Trace validation for C20: one record per result table written as a      *)
(* file and loaded with Panoptica_Statistic.from_file.                     *)
(*   ng, nm, ns        numbers of groups, metrics, subjects                *)
(*   cells[i][j]       value record written for subject i, column j        *)
(*                     (column j = group ((j-1) div nm)+1, metric ((j-1)%nm)+1)*)
(*   loaded[g][m][i]   value record the loader returns (get)               *)
(*   one[i][g][m]      value record of get_one_subject(subject i)          *)
(*   summ[g][m]        [has, avg, var, min, max] of get_summary(g, m)      *)
(*                     (has = FALSE: get_summary raised / nothing finite)  *)
(*   across[m]         [has, avg, var, min, max] of get_summary_across_groups *)
(*   summp[g][m]       the same summaries after loading the rows in another order *)
(*   acrossvals[m]     get_across_groups(metric m)                         *)
(*   summ2, loaded2    summaries / values asked again after every accessor *)
(*                     has been used (the statistics object has no history) *)
(***************************************************************************)
EXTENDS Stats, Json, IOUtils, TLC
T == ndJsonDeserialize(IOEnv.TRACE_FILE)
VARIABLES tid, l
Init == tid \in 1..Len(T) /\ l = 0
Next == l = 0 /\ l' = 1 /\ UNCHANGED tid
Spec == Init /\ [][Next]_<<tid, l>>
R == T[tid]
Go == l = 1
Ok == Go /\ R.out = "ok"
Col(g, m) == [i \in 1..R.ns |-> R.cells[i][(g - 1) * R.nm + m]]
SameSumm(rep, s) == /\ rep.has
                    /\ rep.avg.k = "rat" /\ Norm(rep.avg.v) = s.avg
                    /\ (rep.var.k = "skip" \/ (rep.var.k = "rat" /\ Norm(rep.var.v) = s.var))
                    /\ rep.min.k = "rat" /\ Norm(rep.min.v) = s.min
                    /\ rep.max.k = "rat" /\ Norm(rep.max.v) = s.max

T_Completes == Go => R.out = "ok"
\* missing / NaN / infinite entries are excluded (loaded as missing), finite ones kept as they are
T_Loaded == Ok => \A g \in 1..R.ng : \A m \in 1..R.nm : \A i \in 1..R.ns : R.loaded[g][m][i] = LoadedCell(Col(g, m)[i])
T_PerSubject == Ok => \A i \in 1..R.ns : \A g \in 1..R.ng : \A m \in 1..R.nm : R.one[i][g][m] = LoadedCell(Col(g, m)[i])
\* ... whatever the order of the rows in the file (onep: lookup by name in the statistics of the permuted
\* file; colp: the entry of each column at the position of the subject's name)
T_PerSubjectAnyOrder == Ok => \A i \in 1..R.ns : \A g \in 1..R.ng : \A m \in 1..R.nm :
                               R.onep[i][g][m] = LoadedCell(Col(g, m)[i]) /\ R.colp[i][g][m] = LoadedCell(Col(g, m)[i])
T_Summary == Ok => \A g \in 1..R.ng : \A m \in 1..R.nm : HasSummary(Col(g, m)) => SameSumm(R.summ[g][m], Summary(Col(g, m)))
T_OrderIrrelevant == Ok => \A g \in 1..R.ng : \A m \in 1..R.nm : HasSummary(Col(g, m)) => SameSumm(R.summp[g][m], Summary(Col(g, m)))
\* get_summary_across_groups() computes all metrics at once, so it is defined when every
\* group/metric has at least one finite value
T_Across == (Ok /\ \A g \in 1..R.ng : \A k \in 1..R.nm : HasSummary(Col(g, k))) =>
                \A m \in 1..R.nm : SameSumm(R.across[m], AcrossGroups([g \in 1..R.ng |-> Col(g, m)]))
\* get_across_groups(m): the values of metric m of all groups, group after group
T_AcrossValues == Ok => \A m \in 1..R.nm :
                    /\ Len(R.acrossvals[m]) = R.ng * R.ns
                    /\ \A g \in 1..R.ng : \A i \in 1..R.ns : R.acrossvals[m][(g - 1) * R.ns + i] = LoadedCell(Col(g, m)[i])
\* the accessors are pure observers: after using all of them the object answers as before
T_QueriesReadOnly == Ok => /\ R.loaded2 = R.loaded
                           /\ \A g \in 1..R.ng : \A m \in 1..R.nm : HasSummary(Col(g, m)) => SameSumm(R.summ2[g][m], Summary(Col(g, m)))
=============================================================================
