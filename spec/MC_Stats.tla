------------------------------ MODULE MC_Stats ------------------------------
(* Model part of C20: over all columns of up to N cells drawn from a small set   *)
(* of finite and missing values, the summary is invariant under every            *)
(* permutation of the subjects and ignores the missing entries entirely.         *)
EXTENDS Stats, TLC
CONSTANT N
Cells == {[k |-> "rat", v |-> <<0, 1>>], [k |-> "rat", v |-> <<1, 2>>], [k |-> "rat", v |-> <<3, 1>>],
          [k |-> "rat", v |-> <<-1, 4>>], [k |-> "none", v |-> <<0, 1>>], [k |-> "nan", v |-> <<0, 1>>],
          [k |-> "inf", v |-> <<0, 1>>], [k |-> "ninf", v |-> <<0, 1>>]}
VARIABLES col, l
Init == col \in [1..N -> Cells] /\ l = 0
Next == l = 0 /\ l' = 1 /\ UNCHANGED col
Perms == {p \in [1..N -> 1..N] : \A a, b \in 1..N : p[a] = p[b] => a = b}
PermInvariant == (l = 1 /\ HasSummary(col)) => \A p \in Perms : Summary(Permuted(col, p)) = Summary(col)
OnlyFinite == (l = 1 /\ HasSummary(col)) =>
    LET stripped == SelectSeq(col, IsFinite) IN Summary(stripped) = Summary(col)
Sane == (l = 1 /\ HasSummary(col)) =>
    LET s == Summary(col) IN Leq(s.min, s.avg) /\ Leq(s.avg, s.max) /\ Leq(Zero, s.var)
=============================================================================
