---- MODULE MC_ResultLazy ----
EXTENDS ResultLazy
L1 == {"IOU", "DSC"}
L2 == {"DSC", "ASSD", "RVD"}
====
