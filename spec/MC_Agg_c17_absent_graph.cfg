CONSTANT Aggs <- OneAgg
CONSTANT Calls <- CallsTwo
CONSTANT InitOut <- InitAbsent
CONSTANT MaxCrashes = 1
CONSTANT MaxSessions = 2
CONSTANT NormalExit = TRUE
CONSTANT MaxWorkerKills = 0
CONSTANT HeaderOnEmpty = TRUE
CONSTANT OwnBuffer = TRUE
CONSTANT HeaderNoClaim = TRUE
SPECIFICATION Spec
INVARIANT NoDupRows
INVARIANT HeaderFirstOnce
INVARIANT RowsAreSubjects
INVARIANT SnapOnlyComplete
INVARIANT LocksConsistent
INVARIANT ExactlyOnePerSubject
INVARIANT NoCallFailed
INVARIANT SiblingsIndependent
PROPERTY RowsAppendOnly

