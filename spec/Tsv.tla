-------------------------------- MODULE Tsv --------------------------------
(***************************************************************************)
(* The aggregator's output file as the statistics loader must read it      *)
(* (C18).  Strings are sequences of one-character strings.                 *)
(*   header      "subject_name", then one cell  group \o "-" \o metric     *)
(*               for every group (outer) and metric key (inner)            *)
(*   row         subject name, then one cell per header cell               *)
(* Metric keys never contain "-" (checked against the real key set by the  *)
(* harness), so a header cell is split at its LAST "-": group names may    *)
(* contain "-" themselves.                                                 *)
(* Cell tokens: a finite float is the hexadecimal text of the double       *)
(* (bit-exact), anything else is one of the MissingTokens.                 *)
(***************************************************************************)
EXTENDS Integers, Sequences, FiniteSets

Dash == "-"
MissingTokens == {"nan", "inf", "-inf", "none", "absent", "empty"}

HeaderCell(g, m) == g \o <<Dash>> \o m

LastDash(c) == LET ds == {i \in 1..Len(c) : c[i] = Dash} IN CHOOSE i \in ds : \A j \in ds : j <= i
FirstDash(c) == LET ds == {i \in 1..Len(c) : c[i] = Dash} IN CHOOSE i \in ds : \A j \in ds : i <= j
HasDash(c) == \E i \in 1..Len(c) : c[i] = Dash

\* the intended parse: at the last dash
ParseCell(c) == LET i == LastDash(c) IN <<SubSeq(c, 1, i - 1), SubSeq(c, i + 1, Len(c))>>
\* what the shipped loader did: split at every dash and expect exactly two parts
ParseCellLegacy(c) == IF Cardinality({i \in 1..Len(c) : c[i] = Dash}) = 1 THEN ParseCell(c) ELSE <<"error">>

HeaderRow(groups, metrics) ==      \* sequences of strings-as-sequences
    LET n == Len(metrics) IN
    [j \in 1..(Len(groups) * n) |-> HeaderCell(groups[((j - 1) \div n) + 1], metrics[((j - 1) % n) + 1])]

\* what the loader must report for a written token
Loaded(tok) == IF tok \in MissingTokens THEN "missing" ELSE tok

NoDashIn(m) == ~HasDash(m)

(***************************************************************************)
(* The on-disk form of a row: cells joined by TAB, a cell that contains a  *)
(* TAB, a double quote or a line break is enclosed in double quotes with   *)
(* every inner quote doubled (csv "minimal" quoting), the row ends with LF.*)
(* Characters are one-character strings; TAB = "\t", LF = "\n".            *)
(***************************************************************************)
TAB == "\t"
LF == "\n"
CR == "\r"
DQ == "\""
NeedsQuote(c) == \E i \in 1..Len(c) : c[i] \in {TAB, LF, CR, DQ}
RECURSIVE DoubleQuotes(_)
DoubleQuotes(c) == IF c = <<>> THEN <<>>
                   ELSE (IF Head(c) = DQ THEN <<DQ, DQ>> ELSE <<Head(c)>>) \o DoubleQuotes(Tail(c))
QuoteCell(c) == IF NeedsQuote(c) THEN <<DQ>> \o DoubleQuotes(c) \o <<DQ>> ELSE c
RECURSIVE JoinCells(_)
JoinCells(cells) == IF Len(cells) = 1 THEN QuoteCell(cells[1]) ELSE QuoteCell(cells[1]) \o <<TAB>> \o JoinCells(Tail(cells))
RowText(cells) == JoinCells(cells) \o <<LF>>

\* reading one row back: a small scanner (state: inside quotes or not)
RECURSIVE Scan(_, _, _, _)
Scan(txt, cur, acc, inq) ==      \* txt without the final LF
    IF txt = <<>> THEN Append(acc, cur)
    ELSE LET h == Head(txt)  t == Tail(txt) IN
         IF inq
         THEN IF h = DQ
              THEN IF t # <<>> /\ Head(t) = DQ THEN Scan(Tail(t), Append(cur, DQ), acc, TRUE)
                   ELSE Scan(t, cur, acc, FALSE)
              ELSE Scan(t, Append(cur, h), acc, TRUE)
         ELSE IF h = TAB THEN Scan(t, <<>>, Append(acc, cur), FALSE)
              ELSE IF h = DQ /\ cur = <<>> THEN Scan(t, cur, acc, TRUE)
              ELSE Scan(t, Append(cur, h), acc, FALSE)
ParseRow(txt) == Scan(SubSeq(txt, 1, Len(txt) - 1), <<>>, <<>>, FALSE)
=============================================================================
