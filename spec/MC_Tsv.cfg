CONSTANT MaxLen = 3
CONSTANT Legacy = FALSE
INIT Init
NEXT Next
INVARIANT RoundTrip
INVARIANT Injective
INVARIANT MetricsDashFree
CHECK_DEADLOCK FALSE
