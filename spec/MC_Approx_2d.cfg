CONSTANT Shape <- S33
CONSTANT MaxLabel = 1
INIT Init
NEXT Next
INVARIANT ComponentsAreCC
INVARIANT Discriminates
INVARIANT IsPartition
INVARIANT DefaultChoice
CHECK_DEADLOCK FALSE
