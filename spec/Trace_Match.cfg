SPECIFICATION Spec
INVARIANT T_Terminates
INVARIANT T_RefUnchanged
INVARIANT T_FgPreserved
INVARIANT T_NoSplit
INVARIANT T_FreshDistinct
INVARIANT T_MatchedCarryRef
INVARIANT T_PredFunctional
INVARIANT T_RefInjective
INVARIANT T_PairsOverlap
INVARIANT T_PairsBeat
INVARIANT T_Maximal
INVARIANT T_Stable
INVARIANT T_SeededBySingle
INVARIANT T_FinalAtLeastSeed
INVARIANT T_LabelMapAllowed
INVARIANT T_Monotone
CHECK_DEADLOCK FALSE
