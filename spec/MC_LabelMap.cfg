CONSTANT Preds = {1, 2, 3}
CONSTANT Refs = {1, 2}
CONSTANT MaxOps = 4
SPECIFICATION Spec
INVARIANT InvFunctional
INVARIANT QueriesConsistent
PROPERTY Stable
CHECK_DEADLOCK FALSE
