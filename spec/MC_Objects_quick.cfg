CONSTANT Cfgs = {"c1", "c2"}
CONSTANT Inputs = {"i1", "i2"}
CONSTANT MaxEvaluators = 2
CONSTANT MaxSteps = 4
CONSTANT AliasKeys = FALSE
CONSTANT PerCallTimes = FALSE
SPECIFICATION Spec
INVARIANT Deterministic
INVARIANT NoCallRaises
INVARIANT KeysAreBase
PROPERTY KeysStable
CHECK_DEADLOCK FALSE
