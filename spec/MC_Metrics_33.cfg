CONSTANT Shape <- Shape33
INIT Init
NEXT Next
INVARIANT Laws
INVARIANT PadInvariant
CHECK_DEADLOCK FALSE
INVARIANT BigAgrees
