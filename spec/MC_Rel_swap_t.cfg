CONSTANT Shape <- S22
CONSTANT MaxLabel = 2
CONSTANT Mode = "swap"
INIT Init
NEXT Next
INVARIANT RenameInvariant
INVARIANT GeomInvariant
INVARIANT SwapMirror
INVARIANT GroupsBlind
CHECK_DEADLOCK FALSE
