CONSTANT Shape <- S22
CONSTANT MaxLabel = 1
CONSTANT Mode = "geom"
INIT Init
NEXT Next
INVARIANT RenameInvariant
INVARIANT GeomInvariant
INVARIANT SwapMirror
INVARIANT GroupsBlind
CHECK_DEADLOCK FALSE
