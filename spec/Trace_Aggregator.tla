-------------------------- MODULE Trace_Aggregator --------------------------
(***************************************************************************)
(* Strict trace validation of the aggregator (C16, C17): every recorded    *)
(* lock/file operation of the real code must be the next step of           *)
(* Aggregator.tla, performed by the same process, and must leave the files *)
(* in exactly the recorded state.  Variables that are not logged (lock     *)
(* owners, control states, what each call read) are inferred by TLC.       *)
(*                                                                         *)
(*   SCEN_FILE   one JSON object: the scenario (constants of Aggregator)   *)
(*   TRACE_FILE  ndjson, one trace per line: [ev |-> <<[p, op, files]>>]   *)
(*                                                                         *)
(* A trace is accepted iff TLC can consume all of its events; a state from *)
(* which the next event cannot be taken is a deadlock, reported with the   *)
(* trace id and the length of the matched prefix.  All invariants of       *)
(* Aggregator.tla are evaluated in every state on the way.                 *)
(***************************************************************************)
EXTENDS Integers, Sequences, FiniteSets, TLC, Json, IOUtils

Scen   == JsonDeserialize(IOEnv.SCEN_FILE)
Traces == ndJsonDeserialize(IOEnv.TRACE_FILE)

VARIABLES files, evalLock, fileLock, mpc, cids, pc, ids, snap, regd, sess, crashes, lastop, tid, l
avars == <<files, evalLock, fileLock, mpc, cids, pc, ids, snap, regd, sess, crashes, lastop>>

A == INSTANCE Aggregator WITH
        Aggs <- Scen.aggs, Calls <- Scen.calls, InitOut <- Scen.initout,
        MaxCrashes <- 1000, MaxSessions <- 1000, NormalExit <- Scen.normalexit, MaxWorkerKills <- 0,
        HeaderOnEmpty <- Scen.headeronempty, OwnBuffer <- Scen.ownbuffer, HeaderNoClaim <- Scen.headernoclaim,
        SplitWrites <- Scen.splitwrites, StatWrongLock <- FALSE

Ev == Traces[tid].ev
TInit == A!Init /\ tid \in 1..Len(Traces) /\ l = 0
Consume ==
    /\ l < Len(Ev) /\ l' = l + 1 /\ UNCHANGED tid
    /\ A!Next
    /\ lastop' = [p |-> Ev[l + 1].p, op |-> Ev[l + 1].op]
    /\ files' = Ev[l + 1].files
AtEnd == l = Len(Ev) /\ UNCHANGED <<avars, tid, l>>
TNext == Consume \/ AtEnd
TSpec == TInit /\ [][TNext]_<<avars, tid, l>>

\* the properties, by their Aggregator.tla names (evaluated on every state of every accepted prefix)
NoDupRows            == A!NoDupRows
HeaderFirstOnce      == l >= 1 => A!HeaderFirstOnce
RowsAreSubjects      == A!RowsAreSubjects
SnapOnlyComplete     == A!SnapOnlyComplete
ExactlyOnePerSubject == A!ExactlyOnePerSubject
NoCallFailed         == A!NoCallFailed
SiblingsIndependent  == A!SiblingsIndependent
=============================================================================
