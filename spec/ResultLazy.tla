----------------------------- MODULE ResultLazy -----------------------------
(***************************************************************************)
(* The lazily evaluated metrics of a PanopticaResult (panoptica_result.py, *)
(* Evaluation_Metric) as a state machine - beyond the listed properties    *)
(* (DESIGN 3.4).  Every derived metric is "new" until somebody reads it;   *)
(* reading computes it from its dependencies (which are read, and thereby  *)
(* computed, on the way) and makes it "ok", or "err" when a per-instance   *)
(* list it needs was not requested (MetricCouldNotBeComputedException),    *)
(* or leaves it "new" when the arithmetic itself fails (division by zero   *)
(* for prec/rec without instances, None * float for pq).                   *)
(*   Get(m)       read one metric        ToDict   the visible dictionary   *)
(*   CalcAll      calculate_all(): read every metric, swallow failures     *)
(* Checked: the final visibility does not depend on the order of reads;    *)
(* ok/err are final; a read of an ok/err metric has no effect.             *)
(***************************************************************************)
EXTENDS Integers, Sequences, FiniteSets, TLC

CONSTANTS
    Lists,      \* which per-instance lists the result was built with, subset of ListMetrics
    Globals,    \* which global metrics were requested
    NoPred, NoRef, TpZero,   \* num_pred = 0, num_ref = 0, tp = 0
    SqNone,     \* list metrics whose aggregate is None (edge case result NONE)
    Probe       \* the metrics the model reads individually (all of them in trace validation)

ListMetrics == {"IOU", "DSC", "clDSC", "ASSD", "RVD"}
SqName(lm) == CASE lm = "IOU" -> "sq" [] lm = "DSC" -> "sq_dsc" [] lm = "clDSC" -> "sq_cldsc" [] lm = "ASSD" -> "sq_assd" [] lm = "RVD" -> "sq_rvd"
\* all metrics in the order the result object registers them
Order == <<"num_ref_instances", "num_pred_instances", "tp", "fp", "fn", "prec", "rec", "rq",
           "sq", "sq_std", "pq", "sq_dsc", "sq_dsc_std", "pq_dsc", "sq_cldsc", "sq_cldsc_std", "pq_cldsc",
           "sq_assd", "sq_assd_std", "sq_rvd", "sq_rvd_std",
           "global_bin_dsc", "global_bin_iou", "global_bin_assd", "global_bin_cldsc", "global_bin_rvd">>
All == {Order[i] : i \in 1..Len(Order)}
Given == {"num_ref_instances", "num_pred_instances", "tp"}
GlobalName(g) == CASE g = "DSC" -> "global_bin_dsc" [] g = "IOU" -> "global_bin_iou" [] g = "ASSD" -> "global_bin_assd"
                   [] g = "clDSC" -> "global_bin_cldsc" [] g = "RVD" -> "global_bin_rvd"
GlobalNames == {GlobalName(g) : g \in ListMetrics}

\* which list a metric is computed from ("-" = none)
ListOf(m) == CASE m \in {"sq", "sq_std", "pq"} -> "IOU" [] m \in {"sq_dsc", "sq_dsc_std", "pq_dsc"} -> "DSC"
               [] m \in {"sq_cldsc", "sq_cldsc_std", "pq_cldsc"} -> "clDSC" [] m \in {"sq_assd", "sq_assd_std"} -> "ASSD"
               [] m \in {"sq_rvd", "sq_rvd_std"} -> "RVD" [] OTHER -> "-"
IsPq(m) == m \in {"pq", "pq_dsc", "pq_cldsc"}
SqOf(m) == CASE m = "pq" -> "sq" [] m = "pq_dsc" -> "sq_dsc" [] m = "pq_cldsc" -> "sq_cldsc"

\* the metrics a computation reads, in the order it reads them
Deps(m) == CASE m = "prec" -> <<"fp">> [] m = "rec" -> <<"fn">>
             [] m = "rq" -> (IF TpZero THEN <<>> ELSE <<"fp", "fn">>)
             [] IsPq(m) -> <<SqOf(m), "rq">>
             [] OTHER -> <<>>

VARIABLES st, last
vars == <<st, last>>
Init == /\ st = [m \in All |-> IF m \in Given \/ m \in {GlobalName(g) : g \in Globals} THEN "ok" ELSE "new"]
        /\ last = [op |-> "init", m |-> "-", out |-> "-"]

\* own failure of the computation of m once its dependencies are there
OwnErr(m) == \/ (ListOf(m) # "-" /\ ~IsPq(m) /\ ListOf(m) \notin Lists)        \* list not requested
             \/ (m \in GlobalNames)                                             \* global metric not requested
OwnExc(m) == \/ (m = "prec" /\ NoPred) \/ (m = "rec" /\ NoRef)
             \/ (IsPq(m) /\ ListOf(m) \in SqNone)

(***************************************************************************)
(* Reading metric m in state s: the new state and the outcome              *)
(* "ok" | "err" (MetricCouldNotBeComputedException) | "exc" (other).       *)
(***************************************************************************)
RECURSIVE Read(_, _)
RECURSIVE ReadDeps(_, _)
ReadDeps(s, ds) ==      \* read the dependencies left to right; stop at the first failure
    IF ds = <<>> THEN [s |-> s, out |-> "ok"]
    ELSE LET r == Read(s, Head(ds)) IN
         IF r.out # "ok" THEN r ELSE ReadDeps(r.s, Tail(ds))
Read(s, m) ==
    IF s[m] = "ok" THEN [s |-> s, out |-> "ok"]
    ELSE IF s[m] = "err" THEN [s |-> s, out |-> "err"]
    ELSE LET d == ReadDeps(s, Deps(m)) IN
         IF d.out = "err" THEN [s |-> [d.s EXCEPT ![m] = "err"], out |-> "err"]      \* a dependency could not be computed
         ELSE IF d.out = "exc" THEN [s |-> d.s, out |-> "exc"]                       \* arithmetic failure below: m stays new
         ELSE IF OwnErr(m) THEN [s |-> [d.s EXCEPT ![m] = "err"], out |-> "err"]
         ELSE IF OwnExc(m) THEN [s |-> d.s, out |-> "exc"]
         ELSE [s |-> [d.s EXCEPT ![m] = "ok"], out |-> "ok"]

RECURSIVE ReadAll(_, _)
ReadAll(s, i) == IF i > Len(Order) THEN s ELSE ReadAll(Read(s, Order[i]).s, i + 1)

Get(m) == LET r == Read(st, m) IN st' = r.s /\ last' = [op |-> "get", m |-> m, out |-> r.out]
CalcAll == st' = ReadAll(st, 1) /\ last' = [op |-> "calc_all", m |-> "-", out |-> "-"]
Next == (\E m \in Probe : Get(m)) \/ CalcAll
Spec == Init /\ [][Next]_vars

Visible(s) == {m \in All : s[m] = "ok"}

\* the final visibility is a function of the configuration alone
FinalState == ReadAll([m \in All |-> IF m \in Given \/ m \in {GlobalName(g) : g \in Globals} THEN "ok" ELSE "new"], 1)
OrderIndependent == ReadAll(st, 1) = FinalState
Final == [][\A m \in All : (st[m] \in {"ok", "err"}) => st'[m] = st[m]]_vars
Idempotent == \A m \in All : st[m] \in {"ok", "err"} => Read(st, m).s = st
=============================================================================
