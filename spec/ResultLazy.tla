----------------------------- MODULE ResultLazy -----------------------------
(***************************************************************************)
(* The lazily evaluated metrics of a PanopticaResult (panoptica_result.py, *)
(* Evaluation_Metric) as a state machine - beyond the listed properties    *)
(* (DESIGN 3.4).  Every derived metric is "new" until somebody reads it;   *)
(* reading computes it from its dependencies (which are read, and thereby  *)
(* computed, on the way) and makes it "ok", or "err" when a per-instance   *)
(* list it needs was not requested (MetricCouldNotBeComputedException),    *)
(* or leaves it "new" when the arithmetic itself fails (division by zero   *)
(* for prec/rec without instances, None * float for pq).                   *)
(*   Get(m)       read one metric        ToDict   the visible dictionary   *)
(*   CalcAll      calculate_all(): read every metric, swallow failures     *)
(* Checked: the final visibility does not depend on the order of reads;    *)
(* ok/err are final; a read of an ok/err metric has no effect.             *)
(***************************************************************************)
EXTENDS ResultLazyOps, TLC

CONSTANTS
    Lists,      \* which per-instance lists the result was built with, subset of ListMetrics
    Globals,    \* which global metrics were requested
    NoPred, NoRef, TpZero,   \* num_pred = 0, num_ref = 0, tp = 0
    SqNone,     \* list metrics whose aggregate is None (edge case result NONE)
    Probe       \* the metrics the model reads individually (all of them in trace validation)

Cf == [lists |-> Lists, globals |-> Globals, nopred |-> NoPred, noref |-> NoRef, tpzero |-> TpZero, sqnone |-> SqNone]

VARIABLES st, last
vars == <<st, last>>
Init == st = InitState(Cf) /\ last = [op |-> "init", m |-> "-", out |-> "-"]

Get(m) == LET r == Read(Cf, st, m) IN st' = r.s /\ last' = [op |-> "get", m |-> m, out |-> r.out]
CalcAll == st' = ReadAll(Cf, st, 1) /\ last' = [op |-> "calc_all", m |-> "-", out |-> "-"]
Next == (\E m \in Probe : Get(m)) \/ CalcAll
Spec == Init /\ [][Next]_vars

\* the final visibility is a function of the configuration alone
OrderIndependent == ReadAll(Cf, st, 1) = ReadAll(Cf, InitState(Cf), 1)
Final == [][\A m \in All : (st[m] \in {"ok", "err"}) => st'[m] = st[m]]_vars
Idempotent == \A m \in All : st[m] \in {"ok", "err"} => Read(Cf, st, m).s = st
=============================================================================
