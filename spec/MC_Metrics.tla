----------------------------- MODULE MC_Metrics -----------------------------
(* Exhaustive check of the metric laws (C06/C07 model part) over all pairs  *)
(* of voxel subsets of one small grid.                                      *)
EXTENDS Metrics, TLC
CONSTANT Shape
Shape23 == <<2,3>>
Shape222 == <<2,2,2>>
Shape6 == <<6>>
Shape33 == <<3,3>>
VARIABLES X, Y, l
Init == X \in SUBSET Vox(Shape) /\ Y \in SUBSET Vox(Shape) /\ l = 0
Next == l = 0 /\ l' = 1 /\ UNCHANGED <<X, Y>>
Laws == l = 1 => MetricLaws(Shape, X, Y)
\* ASSD is unaffected by embedding in a larger array (one voxel of margin on every side)
PadShape == [a \in 1..Len(Shape) |-> Shape[a] + 2]
Embed(S) == {VoxOf(PadShape, [a \in 1..Len(Shape) |-> Coord(Shape, v, a) + 1]) : v \in S}
\* Note: embedding removes array-edge contact, which does not change the border:
\* an edge voxel is a border voxel before (out-of-array neighbour) and after (background neighbour).
\* the pair representation of long-range squared distances agrees with integer arithmetic wherever
\* the latter is defined, is monotone, and the long-range maps agree with the plain ones on small grids
ASSUME \A x \in 0..46340 : SqBig(x)[1] * K20 + SqBig(x)[2] = x * x /\ SqBig(x)[2] < K20
ASSUME \A x \in {46340, 46341, 65535, 65536, 100000, 1048575} : LessBig(SqBig(x), SqBig(x + 1))
ASSUME SqBig(65536) = <<4096, 0>> /\ AddBig(SqBig(65536), SqBig(3)) = <<4096, 9>>
BigAgrees == (l = 1 /\ X # {} /\ Y # {}) =>
    LET f == SqDistMap(Shape, X, Y)  g == SqDistMapBig(Shape, X, Y) IN
    /\ DOMAIN f = DOMAIN g
    /\ \A v \in DOMAIN f : g[v].sq = <<0, f[v]>> /\ g[v].lo * g[v].lo <= f[v] /\ f[v] <= g[v].hi * g[v].hi
    /\ LET a == ASSDMilli(Shape, X, Y)  b == ASSDMilliBig(Shape, X, Y) IN b[1] <= a[2] + 1 /\ a[1] <= b[2] + 1
PadInvariant == (l = 1 /\ X # {} /\ Y # {}) => ASSDMilli(Shape, X, Y) = ASSDMilli(PadShape, Embed(X), Embed(Y))
=============================================================================
