----------------------------- MODULE MC_Metrics -----------------------------
(* Exhaustive check of the metric laws (C06/C07 model part) over all pairs  *)
(* of voxel subsets of one small grid.                                      *)
EXTENDS Metrics, TLC
CONSTANT Shape
Shape23 == <<2,3>>
Shape222 == <<2,2,2>>
Shape6 == <<6>>
Shape33 == <<3,3>>
VARIABLES X, Y, l
Init == X \in SUBSET Vox(Shape) /\ Y \in SUBSET Vox(Shape) /\ l = 0
Next == l = 0 /\ l' = 1 /\ UNCHANGED <<X, Y>>
Laws == l = 1 => MetricLaws(Shape, X, Y)
\* ASSD is unaffected by embedding in a larger array (one voxel of margin on every side)
PadShape == [a \in 1..Len(Shape) |-> Shape[a] + 2]
Embed(S) == {VoxOf(PadShape, [a \in 1..Len(Shape) |-> Coord(Shape, v, a) + 1]) : v \in S}
\* Note: embedding removes array-edge contact, which does not change the border:
\* an edge voxel is a border voxel before (out-of-array neighbour) and after (background neighbour).
PadInvariant == (l = 1 /\ X # {} /\ Y # {}) => ASSDMilli(Shape, X, Y) = ASSDMilli(PadShape, Embed(X), Embed(Y))
=============================================================================
