CONSTANT Lists <- L1
CONSTANT Globals = {"DSC"}
CONSTANT NoPred = FALSE
CONSTANT NoRef = FALSE
CONSTANT TpZero = FALSE
CONSTANT SqNone = {}
SPECIFICATION Spec
INVARIANT OrderIndependent
INVARIANT Idempotent
PROPERTY Final
CHECK_DEADLOCK FALSE
CONSTANT Probe = {"prec", "rec", "rq", "pq", "sq_dsc", "pq_dsc", "sq_assd_std", "global_bin_iou"}
