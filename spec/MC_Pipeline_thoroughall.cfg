CONSTANT Shape <- S22
CONSTANT MaxLabel = 2
CONSTANT Cfgs <- CfgAll
CONSTANT LegacyTpBeforeDecision = FALSE
CONSTANT LegacyMergeIgnoresDirection = FALSE
CONSTANT LegacyGlobalFlags = FALSE
INIT Init
NEXT Next
INVARIANT InvPredFunctional
INVARIANT InvRefInjective
INVARIANT InvPairsOverlap
INVARIANT InvPairsBeat
INVARIANT InvMaximal
INVARIANT InvStable
INVARIANT InvOperatorAgrees
INVARIANT InvSeededBySingle
INVARIANT InvFinalAtLeastSeed
INVARIANT InvRelabel
INVARIANT InvBookkeeping
INVARIANT InvZeroTp
INVARIANT InvGlobal
PROPERTY InputsUntouched
PROPERTY MergeImproves
PROPERTY LmGrows
PROPERTY PhaseOrder
CHECK_DEADLOCK FALSE
