---------------------------- MODULE MC_Pipeline ----------------------------
(* Model-checking configurations of Pipeline.tla: constants as definitions. *)
EXTENDS Pipeline

\* a handler whose four scenarios are pairwise distinguishable for every metric
HDistinct == [zt |-> [m \in {"DSC", "IOU", "ASSD", "RVD"} |->
                        [NO_INSTANCES |-> "NAN", EMPTY_PRED |-> "ZERO", EMPTY_REF |-> "ONE", NORMAL |-> "INF"]],
              estd |-> "NONE"]

Mk(i, b, mt, m, t, d, dt) ==
    [input |-> i, backend |-> b, matcher |-> mt, mm |-> m, thr |-> t, dm |-> d, dthr |-> dt,
     im |-> {"IOU", "DSC", "RVD", "ASSD"}, gm |-> {"DSC", "IOU"}, h |-> HDistinct]

\* matcher x metric x threshold on unmatched input, decision variants on matched input,
\* backends on semantic input
CfgMatch == {Mk("UNM", "default", mt, m, t, "NONE", <<0, 1>>) :
                mt \in {"naive", "m2o", "merge"}, m \in {"IOU", "DSC"}, t \in {<<0, 1>>, <<1, 2>>, <<1, 1>>}}
            \cup {Mk("UNM", "default", mt, "ASSD", t, "NONE", <<0, 1>>) :
                mt \in {"naive", "m2o", "merge"}, t \in {<<0, 1>>, <<1, 2>>, <<1, 1>>}}
CfgDecide == {Mk("MAT", "default", "naive", "IOU", <<1, 2>>, d, dt) :
                d \in {"IOU", "DSC"}, dt \in {<<1, 2>>, <<2, 3>>}}
             \cup {Mk("MAT", "default", "naive", "IOU", <<1, 2>>, "ASSD", <<1, 2>>),
                   Mk("MAT", "default", "naive", "IOU", <<1, 2>>, "NONE", <<0, 1>>),
                   Mk("UNM", "default", "naive", "IOU", <<1, 3>>, "IOU", <<1, 2>>)}
CfgSem == {Mk("SEM", b, "naive", "IOU", <<1, 2>>, "NONE", <<0, 1>>) : b \in {"default", "cc3d", "scipy"}}

CfgAll   == CfgMatch \cup CfgDecide \cup CfgSem
CfgSmall == {Mk("UNM", "default", mt, m, <<1, 2>>, "NONE", <<0, 1>>) : mt \in {"naive", "merge"}, m \in {"IOU", "ASSD"}}
            \cup {Mk("MAT", "default", "naive", "IOU", <<1, 2>>, "IOU", <<1, 2>>)}
CfgMergeAssd == {Mk("UNM", "default", "merge", "ASSD", <<1, 1>>, "NONE", <<0, 1>>)}
CfgDecideOnly == {Mk("MAT", "default", "naive", "IOU", <<1, 2>>, "IOU", <<1, 2>>)}

S22 == <<2, 2>>
S23 == <<2, 3>>
S5  == <<5>>
S6  == <<6>>
S222 == <<2, 2, 2>>
=============================================================================
