----------------------------- MODULE Aggregator -----------------------------
(***************************************************************************)
(* Panoptica_Aggregator: processes, locks, files, crash and restart.       *)
(*                                                                         *)
(* One action per lock or file operation of the implementation             *)
(* (panoptica_aggregator.py), because those are the points where threads / *)
(* forked workers interleave and where a kill can fall:                    *)
(*                                                                         *)
(*  constructor (main thread of a session, once per aggregator)            *)
(*    exists_out -> [open_a_out, close_a_out (header)]                     *)
(*                | [open_r_out, read_out (first row; empty => header)]    *)
(*    exists_buf -> [rm_buf] -> open_a_buf, close_a_buf (create empty)     *)
(*    acq_eval, acq_file, open_r_out, read_out (claims := finished rows),  *)
(*    open_a_buf, close_a_buf (write claims), rel_file, rel_eval,          *)
(*    atexit_register                                                      *)
(*  evaluate(subject)   (any number of concurrent calls)                   *)
(*    acq_eval, open_r_buf, read_buf, [rel_eval: duplicate -> return]      *)
(*    open_a_buf, close_a_buf (claim), rel_eval, compute (unlocked),       *)
(*    acq_file, open_a_out, close_a_out (row), rel_file                    *)
(*  make_statistic()                                                       *)
(*    acq_file, open_r_out, read_out (snapshot), rel_file                  *)
(*  exit (normal end of the session): per registered aggregator            *)
(*    exists_buf, [rm_buf]                                                 *)
(*  Crash: every process of the session dies at once (SIGKILL): locks      *)
(*    vanish with the processes, files stay as they are, buffered data of  *)
(*    open handles is lost, the exit handler does not run.                 *)
(*  Restart: a new session: constructor again, every subject resubmitted.  *)
(*                                                                         *)
(* File contents are sequences of lines; a line is "H" (header / its first *)
(* cell) or a subject name.  A row reaches the file in one write at close  *)
(* (rows are far smaller than the I/O buffer: fidelity assumption checked  *)
(* by the harness).                                                        *)
(*                                                                         *)
(* Design constants (TRUE = the repaired design, FALSE = as shipped):      *)
(*   HeaderOnEmpty   an existing but empty output file gets the header     *)
(*   OwnBuffer       the buffer file name is derived from the output file  *)
(*   HeaderNoClaim   the header row is not copied into the claims          *)
(***************************************************************************)
EXTENDS Integers, Sequences, FiniteSets, TLC

CONSTANTS
    Aggs,            \* sequence of aggregator ids, e.g. <<"A">> or <<"A", "B">>, constructed in this order
    Calls,           \* sequence of [agg, kind, subj]: the calls of every session ("eval" | "stat")
    InitOut,         \* initial content of every output file: [ex, ls]
    MaxCrashes,      \* how many times a session may be killed
    MaxSessions,     \* sessions in total (>= 1)
    NormalExit,      \* TRUE: a finished session runs its exit handlers
    MaxWorkerKills,  \* beyond C16/C17: how many single worker processes may be killed (0 in every check of a property)
    HeaderOnEmpty, OwnBuffer, HeaderNoClaim,
    SplitWrites,     \* environment: TRUE = a row reaches the output file in two pieces (a buffered write of a long
                     \* row is several write(2) calls); between them the file ends with a torn line
    StatWrongLock    \* hazard (never shipped): make_statistic takes the claim lock instead of the file lock

None == 0           \* lock owners: None, MainId or a call id
MainId == -1
NC == Len(Calls)
CallIds == 1..NC
AggSet == {Aggs[i] : i \in 1..Len(Aggs)}
Out(a) == "out_" \o a
Buf(a) == IF OwnBuffer THEN "buf_" \o a ELSE "buf"
Paths == {Out(a) : a \in AggSet} \cup {Buf(a) : a \in AggSet}
Absent == [ex |-> FALSE, ls |-> <<>>]
Range(s) == {s[i] : i \in 1..Len(s)}
SubjectsOf(a) == {Calls[c].subj : c \in {d \in CallIds : Calls[d].agg = a /\ Calls[d].kind = "eval"}}
\* the torn line a half-written row of subject s is
Torn(s) == "~" \o s
TornLines == {Torn(Calls[c].subj) : c \in CallIds}
\* the complete lines of a file content
Complete(ls) == SelectSeq(ls, LAMBDA x : x \notin TornLines)

VARIABLES
    files,       \* [Paths -> [ex, ls]]
    evalLock,    \* owner: None, MainId or a call id
    fileLock,
    mpc,         \* main thread: [ph, i, st]   ph \in {"ctor","run","exit","over"}
    cids,        \* what the constructor read from the output file
    pc,          \* [CallIds -> control state of the call]
    ids,         \* [CallIds -> lines read from the buffer]
    snap,        \* [CallIds -> snapshot read by make_statistic (or <<"?">>)]
    regd,        \* aggregators whose exit handler is registered in this session
    sess,        \* session number (1..MaxSessions)
    crashes,
    lastop       \* [p, op]: who did what in the last step (trace binding only; hidden by VIEW)

vars == <<files, evalLock, fileLock, mpc, cids, pc, ids, snap, regd, sess, crashes, lastop>>
view == <<files, evalLock, fileLock, mpc, cids, pc, ids, snap, regd, sess, crashes>>

M(ph, i, st) == [ph |-> ph, i |-> i, st |-> st]
Idle == [c \in CallIds |-> "idle"]

Init ==
    /\ files = [p \in Paths |-> IF p \in {Out(a) : a \in AggSet} THEN InitOut ELSE Absent]
    /\ evalLock = None /\ fileLock = None
    /\ mpc = M("ctor", 1, "exists_out")
    /\ cids = <<>>
    /\ pc = Idle
    /\ ids = [c \in CallIds |-> <<>>]
    /\ snap = [c \in CallIds |-> <<"?">>]
    /\ regd = {}
    /\ sess = 1 /\ crashes = 0
    /\ lastop = [p |-> MainId, op |-> "start"]

SetFile(p, ex, ls) == files' = [files EXCEPT ![p] = [ex |-> ex, ls |-> ls]]
Op(p, op) == lastop' = [p |-> p, op |-> op]

(***************************************************************************)
(* Constructor of aggregator Aggs[mpc.i], by the main thread.              *)
(***************************************************************************)
A == Aggs[mpc.i]
Go(st) == mpc' = M("ctor", mpc.i, st)
CtorKeep == UNCHANGED <<pc, ids, snap, sess, crashes>>

CExistsOut ==
    /\ mpc.ph = "ctor" /\ mpc.st = "exists_out"
    /\ Go(IF files[Out(A)].ex THEN "rf_open" ELSE "hdr_open")
    /\ Op(MainId, "exists_out") /\ UNCHANGED <<files, evalLock, fileLock, cids, regd>> /\ CtorKeep
CHdrOpen ==       \* open(out, "a") creates the file
    /\ mpc.ph = "ctor" /\ mpc.st = "hdr_open"
    /\ SetFile(Out(A), TRUE, files[Out(A)].ls)
    /\ Go("hdr_flush")
    /\ Op(MainId, "open_a_out") /\ UNCHANGED <<evalLock, fileLock, cids, regd>> /\ CtorKeep
CHdrFlush ==
    /\ mpc.ph = "ctor" /\ mpc.st = "hdr_flush"
    /\ SetFile(Out(A), TRUE, Append(files[Out(A)].ls, "H"))
    /\ Go("exists_buf")
    /\ Op(MainId, "close_a_out") /\ UNCHANGED <<evalLock, fileLock, cids, regd>> /\ CtorKeep
CRfOpen ==
    /\ mpc.ph = "ctor" /\ mpc.st = "rf_open"
    /\ Go("rf_read")
    /\ Op(MainId, "open_r_out") /\ UNCHANGED <<files, evalLock, fileLock, cids, regd>> /\ CtorKeep
CRfRead ==        \* first row; an empty file: "will start with header"; another header: the constructor
                  \* refuses the file (AssertionError) and the session is over without touching anything
    /\ mpc.ph = "ctor" /\ mpc.st = "rf_read"
    /\ IF files[Out(A)].ls # <<>> /\ files[Out(A)].ls[1] # "H"
       THEN mpc' = M("failed", 0, "-")
       ELSE Go(IF files[Out(A)].ls = <<>> /\ HeaderOnEmpty THEN "hdr_open" ELSE "exists_buf")
    /\ Op(MainId, "read_out") /\ UNCHANGED <<files, evalLock, fileLock, cids, regd>> /\ CtorKeep
CExistsBuf ==
    /\ mpc.ph = "ctor" /\ mpc.st = "exists_buf"
    /\ Go(IF files[Buf(A)].ex THEN "rm_buf" ELSE "bc_open")
    /\ Op(MainId, "exists_buf") /\ UNCHANGED <<files, evalLock, fileLock, cids, regd>> /\ CtorKeep
CRmBuf ==
    /\ mpc.ph = "ctor" /\ mpc.st = "rm_buf"
    /\ SetFile(Buf(A), FALSE, <<>>)
    /\ Go("bc_open")
    /\ Op(MainId, "rm_buf") /\ UNCHANGED <<evalLock, fileLock, cids, regd>> /\ CtorKeep
CBcOpen ==
    /\ mpc.ph = "ctor" /\ mpc.st = "bc_open"
    /\ SetFile(Buf(A), TRUE, files[Buf(A)].ls)
    /\ Go("bc_close")
    /\ Op(MainId, "open_a_buf") /\ UNCHANGED <<evalLock, fileLock, cids, regd>> /\ CtorKeep
CBcClose ==
    /\ mpc.ph = "ctor" /\ mpc.st = "bc_close"
    /\ Go("acq_eval")
    /\ Op(MainId, "close_a_buf") /\ UNCHANGED <<files, evalLock, fileLock, cids, regd>> /\ CtorKeep
CAcqEval ==
    /\ mpc.ph = "ctor" /\ mpc.st = "acq_eval" /\ evalLock = None
    /\ evalLock' = MainId /\ Go("acq_file")
    /\ Op(MainId, "acq_eval") /\ UNCHANGED <<files, fileLock, cids, regd>> /\ CtorKeep
CAcqFile ==
    /\ mpc.ph = "ctor" /\ mpc.st = "acq_file" /\ fileLock = None
    /\ fileLock' = MainId /\ Go("ro_open")
    /\ Op(MainId, "acq_file") /\ UNCHANGED <<files, evalLock, cids, regd>> /\ CtorKeep
CRoOpen ==
    /\ mpc.ph = "ctor" /\ mpc.st = "ro_open"
    /\ Go("ro_read")
    /\ Op(MainId, "open_r_out") /\ UNCHANGED <<files, evalLock, fileLock, cids, regd>> /\ CtorKeep
CRoRead ==        \* the finished subjects: first column of every row (shipped: the header row too)
    /\ mpc.ph = "ctor" /\ mpc.st = "ro_read"
    /\ cids' = IF HeaderNoClaim THEN SelectSeq(files[Out(A)].ls, LAMBDA x : x # "H") ELSE files[Out(A)].ls
    /\ Go("cb_open")
    /\ Op(MainId, "read_out") /\ UNCHANGED <<files, evalLock, fileLock, regd>> /\ CtorKeep
CCbOpen ==
    /\ mpc.ph = "ctor" /\ mpc.st = "cb_open"
    /\ SetFile(Buf(A), TRUE, files[Buf(A)].ls)
    /\ Go("cb_close")
    /\ Op(MainId, "open_a_buf") /\ UNCHANGED <<evalLock, fileLock, cids, regd>> /\ CtorKeep
CCbClose ==
    /\ mpc.ph = "ctor" /\ mpc.st = "cb_close"
    /\ SetFile(Buf(A), TRUE, files[Buf(A)].ls \o cids)
    /\ Go("rel_file")
    /\ Op(MainId, "close_a_buf") /\ UNCHANGED <<evalLock, fileLock, cids, regd>> /\ CtorKeep
CRelFile ==
    /\ mpc.ph = "ctor" /\ mpc.st = "rel_file"
    /\ fileLock' = None /\ Go("rel_eval")
    /\ Op(MainId, "rel_file") /\ UNCHANGED <<files, evalLock, cids, regd>> /\ CtorKeep
CRelEval ==
    /\ mpc.ph = "ctor" /\ mpc.st = "rel_eval"
    /\ evalLock' = None /\ Go("register")
    /\ Op(MainId, "rel_eval") /\ UNCHANGED <<files, fileLock, cids, regd>> /\ CtorKeep
CRegister ==      \* atexit.register; then the next aggregator, or release the calls
    /\ mpc.ph = "ctor" /\ mpc.st = "register"
    /\ regd' = regd \cup {A}
    /\ IF mpc.i < Len(Aggs)
       THEN mpc' = M("ctor", mpc.i + 1, "exists_out") /\ pc' = pc
       ELSE mpc' = M("run", 0, "-") /\ pc' = [c \in CallIds |-> IF Calls[c].kind = "eval" THEN "acq" ELSE "sacq"]
    /\ Op(MainId, "atexit_register") /\ UNCHANGED <<files, evalLock, fileLock, cids, ids, snap, sess, crashes>>

Ctor == \/ CExistsOut \/ CHdrOpen \/ CHdrFlush \/ CRfOpen \/ CRfRead \/ CExistsBuf \/ CRmBuf \/ CBcOpen
        \/ CBcClose \/ CAcqEval \/ CAcqFile \/ CRoOpen \/ CRoRead \/ CCbOpen \/ CCbClose \/ CRelFile
        \/ CRelEval \/ CRegister

(***************************************************************************)
(* evaluate(subject) - call c on aggregator Calls[c].agg.                  *)
(***************************************************************************)
Ag(c) == Calls[c].agg
Sj(c) == Calls[c].subj
To(c, st) == pc' = [pc EXCEPT ![c] = st]
CallKeep == UNCHANGED <<mpc, cids, regd, sess, crashes>>

EAcq(c) ==
    /\ pc[c] = "acq" /\ evalLock = None
    /\ evalLock' = c /\ To(c, "openr")
    /\ Op(c, "acq_eval") /\ UNCHANGED <<files, fileLock, ids, snap>> /\ CallKeep
EOpenR(c) ==      \* a missing buffer file: FileNotFoundError inside "with lock" -> lock released, call fails
    /\ pc[c] = "openr"
    /\ To(c, IF files[Buf(Ag(c))].ex THEN "read" ELSE "relerr")
    /\ Op(c, "open_r_buf") /\ UNCHANGED <<files, evalLock, fileLock, ids, snap>> /\ CallKeep
ERelErr(c) ==
    /\ pc[c] = "relerr"
    /\ evalLock' = None /\ To(c, "err")
    /\ Op(c, "rel_eval") /\ UNCHANGED <<files, fileLock, ids, snap>> /\ CallKeep
ERead(c) ==       \* read the claims, then (not a yield point) decide: duplicate or claim
    /\ pc[c] = "read"
    /\ ids' = [ids EXCEPT ![c] = files[Buf(Ag(c))].ls]
    /\ To(c, IF Sj(c) \in Range(files[Buf(Ag(c))].ls) THEN "reldup" ELSE "opena")
    /\ Op(c, "read_buf") /\ UNCHANGED <<files, evalLock, fileLock, snap>> /\ CallKeep
ERelDup(c) ==
    /\ pc[c] = "reldup"
    /\ evalLock' = None /\ To(c, "dup")
    /\ Op(c, "rel_eval") /\ UNCHANGED <<files, fileLock, ids, snap>> /\ CallKeep
EOpenA(c) ==
    /\ pc[c] = "opena"
    /\ SetFile(Buf(Ag(c)), TRUE, files[Buf(Ag(c))].ls) /\ To(c, "flush")
    /\ Op(c, "open_a_buf") /\ UNCHANGED <<evalLock, fileLock, ids, snap>> /\ CallKeep
EFlush(c) ==
    /\ pc[c] = "flush"
    /\ SetFile(Buf(Ag(c)), TRUE, Append(files[Buf(Ag(c))].ls, Sj(c))) /\ To(c, "rel")
    /\ Op(c, "close_a_buf") /\ UNCHANGED <<evalLock, fileLock, ids, snap>> /\ CallKeep
ERel(c) ==
    /\ pc[c] = "rel"
    /\ evalLock' = None /\ To(c, "compute")
    /\ Op(c, "rel_eval") /\ UNCHANGED <<files, fileLock, ids, snap>> /\ CallKeep
ECompute(c) ==    \* the evaluation itself, outside every lock
    /\ pc[c] = "compute"
    /\ To(c, "facq")
    /\ Op(c, "compute") /\ UNCHANGED <<files, evalLock, fileLock, ids, snap>> /\ CallKeep
FAcq(c) ==
    /\ pc[c] = "facq" /\ fileLock = None
    /\ fileLock' = c /\ To(c, "fopen")
    /\ Op(c, "acq_file") /\ UNCHANGED <<files, evalLock, ids, snap>> /\ CallKeep
FOpen(c) ==
    /\ pc[c] = "fopen"
    /\ SetFile(Out(Ag(c)), TRUE, files[Out(Ag(c))].ls) /\ To(c, "fflush")
    /\ Op(c, "open_a_out") /\ UNCHANGED <<evalLock, fileLock, ids, snap>> /\ CallKeep
FFlush(c) ==
    /\ pc[c] = "fflush" /\ ~SplitWrites
    /\ SetFile(Out(Ag(c)), TRUE, Append(files[Out(Ag(c))].ls, Sj(c))) /\ To(c, "frel")
    /\ Op(c, "close_a_out") /\ UNCHANGED <<evalLock, fileLock, ids, snap>> /\ CallKeep
\* the same append when the row goes out in two pieces: first a torn line, then the rest of it
FPart(c) ==
    /\ pc[c] = "fflush" /\ SplitWrites
    /\ SetFile(Out(Ag(c)), TRUE, Append(files[Out(Ag(c))].ls, Torn(Sj(c)))) /\ To(c, "fflush2")
    /\ Op(c, "part_out") /\ UNCHANGED <<evalLock, fileLock, ids, snap>> /\ CallKeep
FFlush2(c) ==
    /\ pc[c] = "fflush2"
    /\ LET ls == files[Out(Ag(c))].ls IN SetFile(Out(Ag(c)), TRUE, Append(SubSeq(ls, 1, Len(ls) - 1), Sj(c)))
    /\ To(c, "frel")
    /\ Op(c, "close_a_out") /\ UNCHANGED <<evalLock, fileLock, ids, snap>> /\ CallKeep
FRel(c) ==
    /\ pc[c] = "frel"
    /\ fileLock' = None /\ To(c, "done")
    /\ Op(c, "rel_file") /\ UNCHANGED <<files, evalLock, ids, snap>> /\ CallKeep

(***************************************************************************)
(* make_statistic()                                                        *)
(***************************************************************************)
SAcq(c) ==
    /\ pc[c] = "sacq"
    /\ IF StatWrongLock
       THEN evalLock = None /\ evalLock' = c /\ Op(c, "acq_eval") /\ UNCHANGED fileLock
       ELSE fileLock = None /\ fileLock' = c /\ Op(c, "acq_file") /\ UNCHANGED evalLock
    /\ To(c, "sopen")
    /\ UNCHANGED <<files, ids, snap>> /\ CallKeep
SOpen(c) ==
    /\ pc[c] = "sopen" /\ To(c, "sread")
    /\ Op(c, "open_r_out") /\ UNCHANGED <<files, evalLock, fileLock, ids, snap>> /\ CallKeep
SRead(c) ==
    /\ pc[c] = "sread"
    /\ snap' = [snap EXCEPT ![c] = files[Out(Ag(c))].ls] /\ To(c, "srel")
    /\ Op(c, "read_out") /\ UNCHANGED <<files, evalLock, fileLock, ids>> /\ CallKeep
SRel(c) ==
    /\ pc[c] = "srel"
    /\ IF StatWrongLock
       THEN evalLock' = None /\ Op(c, "rel_eval") /\ UNCHANGED fileLock
       ELSE fileLock' = None /\ Op(c, "rel_file") /\ UNCHANGED evalLock
    /\ To(c, "done")
    /\ UNCHANGED <<files, ids, snap>> /\ CallKeep

(***************************************************************************)
(* Beyond the listed properties: ONE worker process is killed (OOM killer, *)
(* kill -9 of a pool worker) while the rest of the session lives on.  A    *)
(* multiprocessing lock is a semaphore in shared memory: what the dead     *)
(* worker held stays held.  (C16 quantifies over schedules without         *)
(* crashes, C17 over kills of the whole run.)                              *)
(***************************************************************************)
Dead(c) == pc[c] = "dead"
KillOne(c) ==
    /\ MaxWorkerKills > 0
    /\ pc[c] \notin {"idle", "done", "dup", "err", "dead"}
    /\ Cardinality({d \in CallIds : Dead(d)}) < MaxWorkerKills
    /\ To(c, "dead")
    /\ Op(c, "killed") /\ UNCHANGED <<files, evalLock, fileLock, ids, snap>> /\ CallKeep

Call(c) == \/ KillOne(c) \/ EAcq(c) \/ EOpenR(c) \/ ERelErr(c) \/ ERead(c) \/ ERelDup(c) \/ EOpenA(c) \/ EFlush(c) \/ ERel(c)
           \/ ECompute(c) \/ FAcq(c) \/ FOpen(c) \/ FFlush(c) \/ FPart(c) \/ FFlush2(c) \/ FRel(c)
           \/ SAcq(c) \/ SOpen(c) \/ SRead(c) \/ SRel(c)

(***************************************************************************)
(* End of a session, crash, restart.                                       *)
(***************************************************************************)
Returned(c) == pc[c] \in {"done", "dup", "err", "dead"}
AllReturned == \A c \in CallIds : Returned(c)

\* normal exit: the handlers of the registered aggregators, in registration order
Regs == SelectSeq(Aggs, LAMBDA a : a \in regd)
BeginExit ==
    /\ mpc.ph = "run" /\ AllReturned
    /\ mpc' = (IF NormalExit /\ Len(Regs) > 0 THEN M("exit", 1, "x_exists") ELSE M("over", 0, "-"))
    /\ Op(MainId, "join") /\ UNCHANGED <<files, evalLock, fileLock, cids, pc, ids, snap, regd, sess, crashes>>
XExists ==
    /\ mpc.ph = "exit" /\ mpc.st = "x_exists"
    /\ mpc' = (IF files[Buf(Regs[mpc.i])].ex THEN M("exit", mpc.i, "x_rm")
               ELSE IF mpc.i < Len(Regs) THEN M("exit", mpc.i + 1, "x_exists") ELSE M("over", 0, "-"))
    /\ Op(MainId, "exists_buf") /\ UNCHANGED <<files, evalLock, fileLock, cids, pc, ids, snap, regd, sess, crashes>>
XRm ==
    /\ mpc.ph = "exit" /\ mpc.st = "x_rm"
    /\ SetFile(Buf(Regs[mpc.i]), FALSE, <<>>)
    /\ mpc' = (IF mpc.i < Len(Regs) THEN M("exit", mpc.i + 1, "x_exists") ELSE M("over", 0, "-"))
    /\ Op(MainId, "rm_buf") /\ UNCHANGED <<evalLock, fileLock, cids, pc, ids, snap, regd, sess, crashes>>

NewSession ==
    /\ evalLock' = None /\ fileLock' = None
    /\ mpc' = M("ctor", 1, "exists_out")
    /\ cids' = <<>> /\ pc' = Idle /\ ids' = [c \in CallIds |-> <<>>]
    /\ snap' = [c \in CallIds |-> <<"?">>] /\ regd' = {}
    /\ sess' = sess + 1

\* SIGKILL of the whole session at any moment before it is over
Crash ==
    /\ mpc.ph \notin {"over", "failed"} /\ crashes < MaxCrashes /\ sess < MaxSessions
    /\ crashes' = crashes + 1
    /\ NewSession
    /\ Op(MainId, "crash") /\ UNCHANGED files
\* a further session after a completed one
Restart ==
    /\ mpc.ph \in {"over", "failed"} /\ sess < MaxSessions
    /\ NewSession
    /\ Op(MainId, "restart") /\ UNCHANGED <<files, crashes>>

\* the history is over: only here may nothing happen any more (anything else is a deadlock)
Terminated == mpc.ph \in {"over", "failed"} /\ UNCHANGED vars

Main == Ctor \/ BeginExit \/ XExists \/ XRm
Next == Main \/ (\E c \in CallIds : Call(c)) \/ Crash \/ Restart \/ Terminated

Fair == WF_vars(Main) /\ \A c \in CallIds : WF_vars(Call(c))
Spec == Init /\ [][Next]_vars /\ Fair

(***************************************************************************)
(* Properties.                                                             *)
(***************************************************************************)
Rows(a)  == files[Out(a)].ls
Count(s, x) == Cardinality({i \in 1..Len(s) : s[i] = x})

\* C16/C17 safety, in every reachable state
NoDupRows        == \A a \in AggSet : \A i, j \in 1..Len(Rows(a)) : (Rows(a)[i] = Rows(a)[j] /\ Rows(a)[i] # "H") => i = j
HeaderFirstOnce  == \A a \in AggSet : (Len(Rows(a)) > 0 /\ ~(InitOut.ls # <<>> /\ InitOut.ls[1] # "H"))
                                          => (Rows(a)[1] = "H" /\ Count(Rows(a), "H") = 1)
RowsAreSubjects  == \A a \in AggSet : \A i \in 1..Len(Rows(a)) :
                        \/ Rows(a)[i] = "H" \/ Rows(a)[i] \in SubjectsOf(a) \cup Range(InitOut.ls)
                        \* a torn line only as the last line, while its writer is between the two pieces (holding the file lock)
                        \/ (i = Len(Rows(a)) /\ \E c \in CallIds : pc[c] = "fflush2" /\ Ag(c) = a /\ fileLock = c /\ Rows(a)[i] = Torn(Sj(c)))
\* a statistics snapshot only ever holds the header and complete rows of its own file
SnapOnlyComplete == \A c \in CallIds : snap[c] # <<"?">> =>
                        \A i \in 1..Len(snap[c]) : snap[c][i] = "H" \/ snap[c][i] \in SubjectsOf(Ag(c)) \cup Range(InitOut.ls)
LocksConsistent  == /\ evalLock \in {None, MainId} \cup CallIds /\ fileLock \in {None, MainId} \cup CallIds
                    /\ \A c \in CallIds : pc[c] \in {"openr", "relerr", "read", "reldup", "opena", "flush", "rel"} => evalLock = c
                    /\ \A c \in CallIds : pc[c] \in {"fopen", "fflush", "fflush2", "frel"} => fileLock = c
                    /\ \A c \in CallIds : pc[c] \in {"sopen", "sread", "srel"} => (IF StatWrongLock THEN evalLock = c ELSE fileLock = c)

\* at the end of a session that was not killed: every submitted subject exactly once, header once,
\* nothing of anybody else's - whatever happened in earlier sessions
Quiescent == mpc.ph = "over"
ExactlyOnePerSubject ==
    Quiescent => \A a \in AggSet :
        /\ Len(Rows(a)) > 0 /\ Rows(a)[1] = "H" /\ Count(Rows(a), "H") = 1
        /\ \A s \in SubjectsOf(a) \cup (Range(InitOut.ls) \ {"H"}) : Count(Rows(a), s) = 1
        /\ Range(Rows(a)) \subseteq {"H"} \cup SubjectsOf(a) \cup Range(InitOut.ls)
NoCallFailed == \A c \in CallIds : pc[c] # "err"
\* neighbouring aggregators: rows of one file are subjects submitted to that very aggregator
SiblingsIndependent == \A a \in AggSet : Range(Complete(Rows(a))) \subseteq {"H"} \cup SubjectsOf(a) \cup Range(InitOut.ls)

\* rows already written are never altered or removed (action property)
RowsAppendOnly == [][\A a \in AggSet : LET old == Complete(Rows(a))  new == Complete(Rows(a)') IN
                                       /\ Len(new) >= Len(old) /\ SubSeq(new, 1, Len(old)) = old]_vars

\* the hazard of a single killed worker: a lock it held is orphaned, and every other call that needs
\* it waits forever (both are FALSE in the shipped design as soon as MaxWorkerKills > 0)
NoOrphanedLock == \A c \in CallIds : Dead(c) => (evalLock # c /\ fileLock # c)
SurvivorsReturn == <>(\A c \in CallIds : Returned(c))

\* liveness: no call blocks forever - every session that is not killed comes to its end
AllDone == <>(mpc.ph \in {"over", "failed"})
\* a file with a foreign header is refused and never modified
ForeignRefused == [][(InitOut.ls # <<>> /\ InitOut.ls[1] # "H") => \A a \in AggSet : files'[Out(a)] = files[Out(a)]]_vars
EventuallyOver == []<>(mpc.ph = "over" \/ ENABLED Crash)
=============================================================================
