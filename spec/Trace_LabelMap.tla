--------------------------- MODULE Trace_LabelMap ---------------------------
(* Trace validation of InstanceLabelMap: one ndjson line per history of API    *)
(* calls; every event logs the call, its outcome and the dictionary afterwards.*)
(*   op "add": ps (sequence), r, ok (FALSE = raised), after (sequence of <<p,r>>) *)
(*   op "query": kind, p, r (-1 = None), res (BOOLEAN or sequence for "preds")    *)
EXTENDS Integers, Sequences, FiniteSets, TLC, Json, IOUtils
Traces == ndJsonDeserialize(IOEnv.TRACE_FILE)
VARIABLES lm, n, lastok, tid, l
L == INSTANCE LabelMap WITH Preds <- 0..20, Refs <- 0..20, MaxOps <- 100000
Ev == Traces[tid].ev
Range(s) == {s[i] : i \in 1..Len(s)}
Init == L!Init /\ tid \in 1..Len(Traces) /\ l = 0
Consume == /\ l < Len(Ev) /\ l' = l + 1 /\ UNCHANGED tid
           /\ LET e == Ev[l + 1] IN
              IF e.op = "add"
              THEN LET res == L!AddSeq(lm, e.ps, e.r) IN lm' = res.lm /\ lastok' = res.ok /\ n' = n + 1
              ELSE UNCHANGED <<lm, n, lastok>>
Next == Consume \/ (l = Len(Ev) /\ UNCHANGED <<lm, n, lastok, tid, l>>)
Spec == Init /\ [][Next]_<<lm, n, lastok, tid, l>>
E == Ev[l]
Go == l >= 1
T_AddOutcome == (Go /\ E.op = "add") => (E.ok = lastok)
T_DictAfter  == Go => {<<E.after[i][1], E.after[i][2]>> : i \in 1..Len(E.after)} = lm
T_Query == (Go /\ E.op = "query") =>
    CASE E.kind = "pred"  -> E.res = L!ContainsPred(lm, E.p)
      [] E.kind = "ref"   -> E.res = L!ContainsRef(lm, E.r)
      [] E.kind = "and"   -> E.res = L!ContainsAnd(lm, E.p, E.r)
      [] E.kind = "or"    -> E.res = L!ContainsOr(lm, E.p, E.r)
      [] E.kind = "preds" -> Range(E.resl) = L!PredsOfRef(lm, E.r) /\ Len(E.resl) = Cardinality(Range(E.resl))
T_Functional == L!InvFunctional
=============================================================================
